"""C13 - Weighted-sample statistics and the mixture proposal obey their definitions.

icontract post-conditions attached to the real function objects (and to every elfi module that
imported them by name, e.g. elfi.methods.results and elfi.methods.inference.samplers):

* weighted_sample_quantile: q is an element of the sample, W(x <= q) >= alpha - 1e-12 and
  W(x < q) <= alpha + 1e-12 (the whole admissible set is accepted at ties, zero weights and alpha on
  a cumulative-weight boundary);
* weighted_var = reliability-weights unbiased formula (rtol 1e-10, extended precision reference);
* compute_ess = (sum w)^2 / sum w^2 (rtol 1e-10);
* GMDistribution.pdf = sum_k W_k N(x; mu_k, Sigma) evaluated from the definition with numpy.linalg
  (rtol 1e-10), logpdf = log of that, rvs returns exactly `size` finite points that are re-evaluated
  finite under the constraint.

Relational parts of the statement are checked by the harness over the contract-carrying functions:
monotonicity in alpha (pairwise over a sorted alpha grid), invariance under weight rescaling
(powers of two: exact; arbitrary factors: unless alpha is within 1e-12 of a cumulative boundary),
and every row returned by the constrained sampler is a proposal the constraint accepted.
See DESIGN.md section 5 / C13.
"""
import math

import numpy as np

from vmon import contracts
from vmon.core import Violation

PROPERTY = 'C13'
LEVEL = 'exploration'
TECHNIQUE = ('runtime monitoring: icontract post-conditions on the real weighted_sample_quantile / weighted_var / compute_ess / '
             'GMDistribution.{pdf,logpdf,rvs} (all holders, so also calls made through Sample.sample_quantiles / sample_means_and_95CIs) '
             'under random input sweeps, plus relational checks (monotone in alpha, weight-rescaling invariance, accepted-proposal membership)')
LEVEL_TEXT = ('Held on every observed call: each return value of the real functions is compared with a direct evaluation of the '
              "statement's definition on the same arguments. Exploration (random samples, weights, alphas, mixtures, constraints and "
              'seeds), not exhaustive; the right level because the property quantifies over numeric inputs.')
LEVEL_NOTE = ('trusts: numpy (longdouble sums, linalg.solve/slogdet), math.fsum; tolerances: quantile weights 1e-12, variance/ESS/pdf rtol 1e-10; '
              'ill-conditioned variance inputs (|x|max/spread > 1e4 or one weight carrying > 1 - 1e-4 of the mass) and a single component in '
              'd >= 2 are out of domain (DESIGN.md C13 guards)')
RULE = ('cases = (quantile) sample style x weight style x alpha grid {0, 1, random, exactly on / next to cumulative boundaries} x 3 weight rescalings; '
        '(var_ess) 1-d and 2-d samples (d <= 5) x weights {None, random, zeros, integer}; '
        '(gm) d in 1..5, 1-6 components (>= 2 when d >= 2), covariance {default, scalar, matrix}, weights {None, random, zeros, unnormalised}, '
        'points near / far from the components in scalar / 1-d / 2-d layouts, constrained sampler with constraints of mixture mass >= 20 % '
        '(half-space, Mahalanobis ball, accept-all, none), size in 1..60 or None; (sample) Sample objects with and without weights queried for '
        'quantiles and 95 % intervals; distinct = hash of the case; non-trivial = the input has ties, a zero weight, an alpha on a cumulative '
        'boundary, or d >= 2')
ASSUMPTIONS = ['samples are finite 1-d ndarrays; weights are non-negative finite ndarrays with positive sum (>= 2 positive entries for the variance)',
               'GM covariances are generated with condition number <= ~1e3; a single component in d >= 2 is not generated (ambiguous in this API)',
               'constraints for GMDistribution.rvs are derived from the mixture itself with acceptance mass >= 20 % (the sampler retries for ever by design); '
               'a call that makes more than 3000 proposal rounds counts as not returning']
CONFIG = {
    'quick': {'shards': 16, 'cases': 825, 'timeout': 600, 'floor': 2625},
    'thorough': {'shards': 32, 'cases': 6800, 'timeout': 5400, 'floor': 42000},
}
REQUIRED = ['contract_weighted_sample_quantile', 'contract_weighted_var', 'contract_compute_ess', 'contract_pdf', 'contract_logpdf',
            'contract_rvs', 'quantile_alpha_zero', 'quantile_alpha_one', 'quantile_alpha_on_boundary', 'quantile_with_ties',
            'quantile_with_zero_weights', 'quantile_unweighted', 'quantile_single_element', 'quantile_unsorted', 'monotone_pairs_checked',
            'rescale_pow2_checked', 'rescale_arbitrary_checked', 'quantile_via_results', 'var_2d', 'var_unweighted', 'var_zero_weights',
            'ess_zero_weights', 'gm_d1', 'gm_dge2', 'gm_cov_scalar', 'gm_cov_matrix', 'gm_cov_default', 'gm_zero_weight_component',
            'gm_pdf_points', 'gm_logpdf_points', 'rvs_constrained', 'rvs_rows_checked', 'rvs_rejected_proposals', 'rvs_size_none',
            'rvs_membership_checked', 'rvs_rare_constraint_cases']

QTOL = 1e-12
RTOL = 1e-10


# ----------------------------------------------------------------------------------------------
# condition functions (named; used as icontract post-conditions)

def _ood(ctx, name):
    ctx.event('contract_out_of_domain_' + name)
    return True


def make_posts(ctx):
    def quantile_post(result, x, alpha, weights):
        xa = np.asarray(x)
        try:
            a = float(alpha)
        except Exception:
            return _ood(ctx, 'quantile')
        if xa.ndim != 1 or xa.size == 0 or xa.dtype.kind not in 'fiu' or not np.all(np.isfinite(xa)) or not (0.0 <= a <= 1.0):
            return _ood(ctx, 'quantile')
        w = np.ones(len(xa)) if weights is None else np.asarray(weights, dtype=float)
        if w.shape != xa.shape or not np.all(np.isfinite(w)) or np.any(w < 0) or not np.sum(w) > 0:
            return _ood(ctx, 'quantile')
        wit = {'x': xa, 'alpha': a, 'weights': None if weights is None else w, 'returned': result}
        if np.ndim(result) != 0 or not np.any(xa == result):
            raise Violation('quantile-not-in-sample', 'weighted_sample_quantile returned %r, which is not an element of the sample' % (result,), wit)
        tot = math.fsum(w)
        le = math.fsum(w[xa <= result]) / tot
        lt = math.fsum(w[xa < result]) / tot
        wit.update({'W_le': le, 'W_lt': lt})
        if not le >= a - QTOL:
            raise Violation('quantile-weight-below', 'alpha=%r: normalised weight of values <= q=%r is %r < alpha' % (a, result, le), wit)
        if not lt <= a + QTOL:
            raise Violation('quantile-weight-above', 'alpha=%r: normalised weight of values < q=%r is %r > alpha' % (a, result, lt), wit)
        return True

    def var_post(result, x, weights):
        xa = np.asarray(x, dtype=float)
        if xa.ndim not in (1, 2) or xa.shape[0] < 2 or not np.all(np.isfinite(xa)):
            return _ood(ctx, 'var')
        w = np.ones(len(xa)) if weights is None else np.asarray(weights, dtype=float)
        if w.shape != (len(xa),) or not np.all(np.isfinite(w)) or np.any(w < 0) or np.count_nonzero(w) < 2:
            return _ood(ctx, 'var')
        L = np.longdouble
        wl = w.astype(L)
        X = xa.astype(L).reshape(len(xa), -1)
        V1 = wl.sum()
        V2 = (wl * wl).sum()
        den = V1 - V2 / V1
        if not den > 1e-4 * V1:
            return _ood(ctx, 'var_illconditioned')
        xbar = (wl[:, None] * X).sum(axis=0) / V1
        dev = X - xbar
        ref = ((wl[:, None] * dev * dev).sum(axis=0) / den).astype(float)
        pos = w > 0
        Xp = xa.reshape(len(xa), -1)[pos]
        spread = Xp.max(axis=0) - Xp.min(axis=0)         # exactly 0 when all weighted values are equal
        mag = np.abs(Xp).max(axis=0)
        if np.any((spread > 0) & (mag > 1e4 * spread)):
            return _ood(ctx, 'var_illconditioned')
        got = np.asarray(result, dtype=float)
        exp_shape = () if xa.ndim == 1 else (xa.shape[1],)
        wit = {'x': xa, 'weights': None if weights is None else w, 'returned': got, 'formula': ref}
        if got.shape != exp_shape:
            raise Violation('var-shape', 'weighted_var returned shape %s for x of shape %s' % (got.shape, xa.shape), wit)
        tol = RTOL * np.abs(ref) + 1e-24 * (1.0 + mag) ** 2
        if not np.all(np.abs(got.reshape(-1) - ref) <= tol):
            raise Violation('var-formula', 'weighted_var %r != reliability-weights unbiased variance %r' % (got.tolist(), ref.tolist()), wit)
        return True

    def ess_post(result, weights):
        if weights is None:
            return _ood(ctx, 'ess')
        w = np.atleast_1d(np.asarray(weights, dtype=float))
        if w.ndim != 1 or not np.all(np.isfinite(w)) or np.any(w < 0) or not np.max(w) > 0:
            return _ood(ctx, 'ess')
        wl = (w / np.max(w)).astype(np.longdouble)
        ref = float(wl.sum() ** 2 / (wl * wl).sum())
        wit = {'weights': w, 'returned': result, 'formula': ref}
        if np.ndim(result) != 0 or not abs(float(result) - ref) <= RTOL * ref:
            raise Violation('ess-formula', 'compute_ess %r != (sum w)^2 / sum w^2 = %r' % (result, ref), wit)
        return True

    def _gm_args(x, means, cov, weights):
        """Interpret the arguments per the documented API; None when outside the generated domain."""
        M = np.asarray(means, dtype=float)
        if M.ndim == 0 or M.ndim > 2 or M.size == 0 or not np.all(np.isfinite(M)):
            return None
        k = M.shape[0]
        M = M.reshape(k, -1)
        d = M.shape[1]
        if d >= 2 and k == 1:
            return None                     # squeezed into d scalar components by the API: not generated
        w = np.ones(k) if weights is None else np.asarray(weights, dtype=float)
        if w.shape != (k,) or not np.all(np.isfinite(w)) or np.any(w < 0) or not w.sum() > 0:
            return None
        C = np.asarray(cov, dtype=float)
        if C.ndim == 0:
            C = np.eye(d) * float(C)
        elif C.shape != (d, d):
            return None
        if not np.all(np.isfinite(C)) or not np.allclose(C, C.T) or np.any(np.linalg.eigvalsh(C) <= 0):
            return None
        if np.linalg.cond(C) > 1e6:
            return None
        X = None
        if x is not None:
            X = np.asarray(x, dtype=float)
            if d == 1:
                if X.ndim > 2 or (X.ndim == 2 and X.shape[1] != 1):
                    return None
                X = X.reshape(-1, 1)
            else:
                if X.ndim == 1 and X.shape[0] == d:
                    X = X[None, :]
                elif X.ndim != 2 or X.shape[1] != d:
                    return None
            if not np.all(np.isfinite(X)):
                return None
        return X, M, C, w / w.sum(), d, k

    def _gm_ref(X, M, C, W, d):
        """Definition: sum_k W_k (2 pi)^(-d/2) |C|^(-1/2) exp(-(x-mu_k)' C^-1 (x-mu_k) / 2)."""
        sign, logdet = np.linalg.slogdet(C)
        lognorm = -0.5 * (d * math.log(2 * math.pi) + logdet)
        ref = np.zeros(len(X))
        for mu, wk in zip(M, W):
            if wk == 0:
                continue
            D = X - mu
            maha = np.einsum('ij,ij->i', D, np.linalg.solve(C, D.T).T)
            ref += wk * np.exp(lognorm - 0.5 * maha)
        return ref

    def pdf_post(result, cls, x, means, cov, weights):
        a = _gm_args(x, means, cov, weights)
        if a is None:
            return _ood(ctx, 'gm_pdf')
        X, M, C, W, d, k = a
        ref = _gm_ref(X, M, C, W, d)
        got = np.asarray(result, dtype=float)
        wit = {'x': X, 'means': M, 'cov': C, 'weights': W, 'returned': got, 'definition': ref}
        if got.size != len(X):
            raise Violation('gm-pdf-shape', 'GMDistribution.pdf returned %d values for %d points' % (got.size, len(X)), wit)
        ctx.event('gm_pdf_points', len(X))
        if not np.all(np.abs(got.reshape(-1) - ref) <= RTOL * ref + 1e-300):
            raise Violation('gm-pdf', 'GMDistribution.pdf %r != weighted sum of component normal densities %r' % (
                got.reshape(-1)[:6].tolist(), ref[:6].tolist()), wit)
        return True

    def logpdf_post(result, cls, x, means, cov, weights):
        a = _gm_args(x, means, cov, weights)
        if a is None:
            return _ood(ctx, 'gm_logpdf')
        X, M, C, W, d, k = a
        ref = _gm_ref(X, M, C, W, d)
        got = np.asarray(result, dtype=float)
        wit = {'x': X, 'means': M, 'cov': C, 'weights': W, 'returned': got, 'definition_pdf': ref}
        if got.size != len(X):
            raise Violation('gm-logpdf-shape', 'GMDistribution.logpdf returned %d values for %d points' % (got.size, len(X)), wit)
        ctx.event('gm_logpdf_points', len(X))
        g = got.reshape(-1)
        for gi, ri in zip(g, ref):
            if ri < 1e-290:
                ok = gi == -np.inf or gi < math.log(1e-289)      # the density underflows: log of that
                ctx.event('gm_logpdf_underflow_points')
            else:
                lr = math.log(ri)
                ok = abs(gi - lr) <= 2e-10 + 1e-12 * abs(lr)
            if not ok:
                raise Violation('gm-logpdf', 'GMDistribution.logpdf %r != log of the mixture density (density %r, log %r)' % (
                    gi, ri, math.log(ri) if ri > 0 else -np.inf), wit)
        return True

    def rvs_post(result, cls, means, cov, weights, size, prior_logpdf, random_state):
        a = _gm_args(None, means, cov, weights)
        if a is None or not (size is None or (isinstance(size, (int, np.integer)) and size >= 0)):
            return _ood(ctx, 'gm_rvs')
        _, M, C, W, d, k = a
        got = np.asarray(result, dtype=float)
        wit = {'means': M, 'cov': C, 'weights': W, 'size': size, 'returned': got, 'constrained': prior_logpdf is not None}
        if size is None:
            ok_shape = got.shape in ((), (1,)) if d == 1 else got.shape == (d,)
            rows = got.reshape(1, -1)
            n = 1
        else:
            n = int(size)
            ok_shape = got.shape in ((n,), (n, 1)) if d == 1 else got.shape == (n, d)
            rows = got.reshape(n, -1) if ok_shape else got
        if not ok_shape:
            raise Violation('rvs-count', 'GMDistribution.rvs(size=%r) returned an array of shape %s for a %d-dimensional mixture' % (size, got.shape, d), wit)
        if not np.all(np.isfinite(rows)):
            raise Violation('rvs-not-a-point', 'GMDistribution.rvs returned non-finite coordinates', wit)
        if prior_logpdf is not None and n > 0:
            pure = getattr(prior_logpdf, 'vmon_pure', prior_logpdf)
            arg = rows[:, 0] if (d == 1 and got.ndim <= 1) else rows
            lp = np.asarray(pure(arg))
            bad = ~np.isfinite(lp.reshape(-1))
            if lp.size != n or bad.any():
                wit['constraint_values'] = lp
                raise Violation('rvs-constraint', 'GMDistribution.rvs returned %d of %d points that do not satisfy the constraint' % (int(bad.sum()), n), wit)
        ctx.event('rvs_rows_checked', n)
        return True

    return quantile_post, var_post, ess_post, pdf_post, logpdf_post, rvs_post


def specs(ctx):
    q, v, e, p, lp, r = make_posts(ctx)
    S = contracts.Spec
    mu = 'elfi.methods.utils'
    return [S(mu, 'weighted_sample_quantile', post=q, prop='C13'), S(mu, 'weighted_var', post=v, prop='C13'),
            S(mu, 'compute_ess', post=e, prop='C13'),
            S(mu, 'pdf', post=p, prop='C13', owner='GMDistribution'), S(mu, 'logpdf', post=lp, prop='C13', owner='GMDistribution'),
            S(mu, 'rvs', post=r, prop='C13', owner='GMDistribution')]


# ----------------------------------------------------------------------------------------------
# input derivation (pure functions of the plain-data case)

X_STYLES = ['cont', 'cont', 'ties', 'ties', 'equal', 'sorted', 'reversed', 'two', 'int', 'single']
W_STYLES = ['none', 'uniform', 'random', 'random', 'zeros', 'zeros', 'dominant', 'dyadic', 'dyadic', 'int', 'tiny', 'huge']


def derive_x(rng, n, style):
    if style == 'single':
        n = 1
    scale = 10.0 ** rng.uniform(-2, 3)
    off = rng.uniform(-50, 50) * scale
    if style in ('cont', 'sorted', 'reversed', 'single'):
        x = rng.normal(size=n) * scale + off
        if style == 'sorted':
            x = np.sort(x)
        if style == 'reversed':
            x = np.sort(x)[::-1].copy()
    elif style == 'ties':
        x = rng.integers(0, max(2, n // 3 + 1), size=n) * scale + off
    elif style == 'equal':
        x = np.full(n, off if rng.random() < 0.7 else 0.0)
    elif style == 'two':
        x = rng.choice([off, off + scale], size=n)
    else:   # int dtype, includes negatives and ties
        x = rng.integers(-5, 6, size=n)
    return x


def derive_w(rng, n, style):
    if style == 'none':
        return None
    if style == 'uniform':
        return np.full(n, float(rng.choice([1.0, 0.25, 3.0, 1.0 / n])))
    if style == 'random':
        return rng.random(n) + 1e-3
    if style == 'zeros':
        w = rng.random(n) + 1e-3
        z = rng.random(n) < rng.uniform(0.2, 0.7)
        if z.all():
            z[rng.integers(0, n)] = False
        w[z] = 0.0
        return w
    if style == 'dominant':
        w = rng.random(n) * 1e-3
        w[rng.integers(0, n)] = 1.0
        return w
    if style == 'dyadic':
        r = int(rng.integers(2, 11))
        p = rng.random(n) * (rng.random(n) < 0.8)
        if p.sum() == 0:
            p[0] = 1.0
        m = rng.multinomial(2 ** r, p / p.sum()).astype(float)
        return m * float(2.0 ** rng.integers(-3, 4))
    if style == 'int':
        w = rng.integers(0, 5, size=n)
        if w.sum() == 0:
            w[rng.integers(0, n)] = 2
        return w
    w = rng.random(n) + 1e-3
    return w * (1e-8 if style == 'tiny' else 1e8)


def boundaries(x, w):
    """Cumulative normalised weights in sorted order, computed the plain numpy way (floats)."""
    ws = (np.ones(len(x)) if w is None else np.asarray(w, dtype=float))[np.argsort(x, kind='stable')]
    return np.cumsum(ws / np.sum(ws))


def exact_boundaries(x, w):
    ws = (np.ones(len(x)) if w is None else np.asarray(w, dtype=float))[np.argsort(x, kind='stable')].astype(np.longdouble)
    return np.cumsum(ws) / ws.sum()


# ----------------------------------------------------------------------------------------------
# case generation: plain data only (seed + knobs); arrays are re-derived in run_case

def gen_cases(ctx):
    rng = ctx.rng
    kinds = ['quantile'] * 9 + ['var_ess'] * 4 + ['gm'] * 5 + ['sample'] * 2
    for c in range(ctx.ncases):
        kind = kinds[c % len(kinds)]
        seed = int(rng.integers(0, 2 ** 62))
        big = ctx.tier == 'thorough' and rng.random() < 0.05
        if kind == 'quantile':
            yield {'kind': kind, 'seed': seed, 'n': int(rng.integers(1, 41)) if not big else int(rng.integers(100, 1500)),
                   'xs': str(rng.choice(X_STYLES)), 'ws': str(rng.choice(W_STYLES))}
        elif kind == 'var_ess':
            yield {'kind': kind, 'seed': seed, 'n': int(rng.integers(2, 41)) if not big else int(rng.integers(100, 1500)),
                   'd': int(rng.integers(1, 6)), 'xs': str(rng.choice(['cont', 'cont', 'ties', 'equal', 'int'])),
                   'ws': str(rng.choice(['none', 'uniform', 'random', 'zeros', 'int', 'tiny', 'huge', 'dyadic']))}
        elif kind == 'gm':
            d = int(rng.integers(1, 6))
            yield {'kind': kind, 'seed': seed, 'd': d, 'k': int(rng.integers(1 if d == 1 else 2, 7)),
                   'cov': str(rng.choice(['default', 'scalar', 'matrix', 'matrix'])),
                   'ws': str(rng.choice(['none', 'random', 'zeros', 'unnormalised'])),
                   'cons': str(rng.choice(['none', 'all', 'half', 'half', 'ball'])),
                   'size': None if rng.random() < 0.15 else int(rng.integers(1, 61)),
                   'means_2d': bool(rng.random() < 0.5)}
            if seed % 16 == 0:
                yield {'kind': kind, 'seed': seed + 1, 'd': d, 'k': int(rng.integers(1 if d == 1 else 2, 4)), 'cov': 'matrix' if d > 1 else 'scalar',
                       'ws': 'random', 'cons': 'half', 'size': int(rng.integers(1, 7)), 'means_2d': True, 'rare': True}
        else:
            yield {'kind': kind, 'seed': seed, 'n': int(rng.integers(1, 60)), 'ws': str(rng.choice(['none', 'random', 'zeros', 'dyadic'])),
                   'xs': str(rng.choice(['cont', 'ties', 'int']))}


# ----------------------------------------------------------------------------------------------
# case execution

def _alpha_grid(rng, x, w):
    b = boundaries(x, w)
    al = [0.0, 1.0] + [float(a) for a in rng.random(4)] + [float(rng.random() * 10.0 ** -rng.integers(1, 14))]
    on = []
    inner = b[b <= 1.0]
    if len(inner):
        for v in rng.choice(inner, size=min(len(inner), 6), replace=False):
            on.append(float(v))
        v = float(rng.choice(inner))
        for nb in (np.nextafter(v, 0.0), np.nextafter(v, 2.0), v - 3e-13, v + 3e-13):
            if 0.0 <= nb <= 1.0:
                al.append(float(nb))
    return sorted(set(al + on)), set(on)


def _run_quantile(ctx, case, eu):
    rng = np.random.default_rng([case['seed'], 1])
    x = derive_x(rng, case['n'], case['xs'])
    n = len(x)
    w = derive_w(rng, n, case['ws'])
    alphas, on = _alpha_grid(rng, x, w)
    ties = len(np.unique(x)) < n
    zeros = w is not None and bool(np.any(np.asarray(w) == 0))
    unsorted = n > 1 and not np.all(x[:-1] <= x[1:])
    qs = []
    for a in alphas:
        qs.append(eu.weighted_sample_quantile(x, a, weights=w) if (w is not None or a in on or rng.random() < 0.5)
                  else eu.weighted_sample_quantile(x, a))
        if a == 0.0:
            ctx.event('quantile_alpha_zero')
        if a == 1.0:
            ctx.event('quantile_alpha_one')
        if a in on:
            ctx.event('quantile_alpha_on_boundary')
    ctx.event('quantile_with_ties', ties)
    ctx.event('quantile_with_zero_weights', zeros)
    ctx.event('quantile_unweighted', w is None)
    ctx.event('quantile_single_element', n == 1)
    ctx.event('quantile_unsorted', unsorted)
    # monotone in alpha: pairwise over the sorted grid (adjacent pairs imply all pairs)
    for i in range(len(alphas) - 1):
        ctx.event('monotone_pairs_checked')
        if not qs[i] <= qs[i + 1]:
            raise Violation('quantile-not-monotone', 'alpha %r -> %r but larger alpha %r -> %r' % (alphas[i], qs[i], alphas[i + 1], qs[i + 1]),
                            {'x': x, 'weights': w, 'alphas': alphas[i:i + 2], 'quantiles': qs[i:i + 2]})
    # invariance under rescaling of the weights
    base = np.ones(n) if w is None else np.asarray(w, dtype=float)
    eb = exact_boundaries(x, w)
    p2 = float(2.0 ** rng.integers(-20, 21))
    arb = float(10.0 ** rng.uniform(-6, 6))
    for c, exact in ((p2, True), (arb, False), (float(rng.uniform(0.5, 2.0)), False)):
        wc = base * c
        for a, q0 in zip(alphas, qs):
            q1 = eu.weighted_sample_quantile(x, a, weights=wc)
            ctx.event('rescale_pow2_checked' if exact else 'rescale_arbitrary_checked')
            if q1 != q0:
                near = float(np.min(np.abs(eb - np.longdouble(a)))) <= QTOL
                if exact or not near:
                    raise Violation('quantile-not-scale-invariant', 'alpha=%r: quantile %r with weights w but %r with weights %r * w' % (a, q0, q1, c),
                                    {'x': x, 'weights': w, 'factor': c, 'alpha': a, 'quantiles': [q0, q1]})
                ctx.event('rescale_differs_at_boundary')
    ctx.nontrivial(ties or zeros or bool(on))


def _run_var_ess(ctx, case, eu):
    rng = np.random.default_rng([case['seed'], 2])
    n, d = case['n'], case['d']
    cols = [derive_x(rng, n, case['xs']) for _ in range(d)]
    w = derive_w(rng, n, case['ws'])
    if w is not None and np.count_nonzero(w) < 2:
        w = np.asarray(w, dtype=float).copy()
        w[:2] = [1.0, 2.0]
    X = np.column_stack(cols).astype(float)
    wf = None if w is None else np.asarray(w, dtype=float)
    zeros = wf is not None and bool(np.any(wf == 0))
    ties = any(len(np.unique(c)) < n for c in cols)
    if wf is None:
        eu.weighted_var(X[:, 0])
        eu.weighted_var(X)
        ctx.event('var_unweighted')
    else:
        eu.weighted_var(X[:, 0], wf)
        eu.weighted_var(X, weights=wf)
        ctx.event('var_zero_weights', zeros)
    ctx.event('var_2d', d >= 2)
    # ESS on the same weights and on a second, more extreme vector
    w2 = derive_w(rng, int(rng.integers(1, 60)), str(rng.choice(['uniform', 'random', 'zeros', 'dominant', 'int', 'tiny', 'huge'])))
    for ww in (wf if wf is not None else np.ones(n), np.asarray(w2)):
        eu.compute_ess(ww)
        ctx.event('ess_zero_weights', bool(np.any(np.asarray(ww) == 0)))
    ctx.nontrivial(ties or zeros or d >= 2)


class RoundBudgetExceeded(Exception):
    pass


class BudgetRandomState(np.random.RandomState):
    """The generator handed to rvs: identical draws, but at most `rounds` calls of choice()."""
    rounds = 3000

    def choice(self, *a, **k):
        self.rounds -= 1
        if self.rounds < 0:
            raise RoundBudgetExceeded()
        return super().choice(*a, **k)


def derive_gm(case):
    rng = np.random.default_rng([case['seed'], 3])
    d, k = case['d'], case['k']
    scale = 10.0 ** rng.uniform(-1, 1)
    if rng.random() < 0.3:
        # parameters in very small or very large units (rates per microsecond, populations in millions): same mixture, other scale
        scale = 10.0 ** (rng.uniform(-6, -3) if rng.random() < 0.6 else rng.uniform(2, 4))
    M = (rng.normal(size=(k, d)) * 3 + rng.uniform(-5, 5)) * scale
    if case['ws'] == 'none':
        w = None
    else:
        w = rng.random(k) + 0.05
        if case['ws'] == 'zeros' and k >= 2:
            z = rng.random(k) < 0.4
            if z.all():
                z[0] = False
            if not z.any():
                z[-1] = True
            w[z] = 0.0
        if case['ws'] == 'unnormalised':
            w = w * 10.0 ** rng.uniform(-3, 3)
    if case['cov'] == 'default':
        C = np.eye(d)
        cov_arg = 'default'
    elif case['cov'] == 'scalar':
        c = float(scale ** 2 * rng.uniform(0.2, 3.0))
        C = np.eye(d) * c
        cov_arg = c
    else:
        A = rng.normal(size=(d, d))
        C = scale ** 2 * (A @ A.T / d + 0.3 * np.eye(d))
        C = (C + C.T) / 2
        cov_arg = C
    W = np.ones(k) / k if w is None else w / w.sum()
    return rng, M, w, W, C, cov_arg


def _points(rng, M, W, C, n, far=False):
    d = M.shape[1]
    L = np.linalg.cholesky(C)
    j = rng.integers(0, len(M), size=n)
    t = rng.choice([0.0, 1.0, 3.0, 6.0], size=n) if not far else np.full(n, 60.0)
    return M[j] + (rng.normal(size=(n, d)) @ L.T) * t[:, None] / max(1.0, math.sqrt(d)) + (0 if not far else 60.0 * np.sqrt(np.diag(C)))


def _mix_cdf(c, proj, s, W):
    from scipy.special import ndtr
    return float(np.sum(W * ndtr((c - proj) / s)))


def _outside(case, v):
    """Log-density reported for points that do not satisfy the constraint: -inf, or NaN (what a hierarchical prior
    returns when a parent falls outside its support), or a mixture of both."""
    style = case['seed'] % 3
    if style == 0:
        return -np.inf
    if style == 1:
        return np.nan
    return np.where(np.asarray(v) * 1e6 % 2 < 1, np.nan, -np.inf)


def make_constraint(case, rng, M, W, C):
    """Constraint with mixture mass >= 20 %, derived from the mixture itself. Returns (pure logpdf fn, description)."""
    d = M.shape[1]
    kind = case['cons']
    Cinv = np.linalg.inv(C)

    def as_rows(z):
        z = np.asarray(z, dtype=float)
        return z.reshape(-1, 1) if d == 1 else z.reshape(-1, d)

    if kind == 'ball':
        from scipy.stats import chi2
        j = int(np.argmax(W))
        p = 0.9
        if W[j] * p < 0.22:
            kind = 'half'
        else:
            r2 = float(chi2.ppf(p, d))
            mu = M[j]

            def pure(z):
                D = as_rows(z) - mu
                m = np.einsum('ij,jk,ik->i', D, Cinv, D)
                return np.where(m <= r2, -0.5 * m, _outside(case, m))
            return pure, {'kind': 'ball', 'component': j, 'r2': r2, 'mass_lower_bound': float(W[j] * p)}
    if kind == 'half':
        a = rng.normal(size=d)
        a /= np.linalg.norm(a)
        s = math.sqrt(float(a @ C @ a))
        proj = M @ a
        p = float(rng.uniform(0.2, 0.95))
        if case.get('rare'):
            # a constraint that only a few proposals in ten thousand satisfy (a prior whose support barely overlaps the
            # proposal): the sampler must keep trying - every returned point still has to satisfy it
            p = float(rng.uniform(3e-4, 1.5e-3))
        lo, hi = float(proj.min() - 12 * s), float(proj.max() + 12 * s)
        for _ in range(200):
            mid = 0.5 * (lo + hi)
            if _mix_cdf(mid, proj, s, W) < p:
                lo = mid
            else:
                hi = mid
        c = hi
        mass = _mix_cdf(c, proj, s, W)
        assert mass >= 0.199 or case.get('rare'), mass

        def pure(z):
            v = as_rows(z) @ a
            return np.where(v <= c, 0.0, _outside(case, v))
        return pure, {'kind': 'half', 'a': a, 'c': c, 'mass': mass}

    def pure(z):
        return np.zeros(len(as_rows(z)))
    return pure, {'kind': 'all', 'mass': 1.0}


def _run_gm(ctx, case, eu):
    GM = eu.GMDistribution
    rng, M, w, W, C, cov_arg = derive_gm(case)
    d, k = case['d'], case['k']
    means = M if (d >= 2 or case['means_2d']) else M[:, 0]
    kw = {}
    if case['cov'] != 'default':
        kw['cov'] = cov_arg
        if d == 1 and isinstance(cov_arg, np.ndarray) and rng.random() < 0.3:
            kw['cov'] = float(cov_arg[0, 0])
    if w is not None:
        kw['weights'] = w
    ctx.event('gm_d1' if d == 1 else 'gm_dge2')
    ctx.event('gm_cov_' + case['cov'])
    ctx.event('gm_zero_weight_component', w is not None and bool(np.any(w == 0)))
    ctx.distinct('gm_shape', 'd%d|k%d|%s|%s' % (d, min(k, 3), case['cov'], case['ws']))
    # densities: several layouts of the query points
    P = _points(rng, M, W, C, int(rng.integers(1, 8)))
    Pfar = np.vstack([_points(rng, M, W, C, 2), _points(rng, M, W, C, 1, far=True)])
    layouts = [P, Pfar, P[:1]]
    for Q in layouts:
        if d == 1:
            forms = [Q[:, 0], Q, float(Q[0, 0])]
        else:
            forms = [Q, Q[0]]
        xq = forms[int(rng.integers(0, len(forms)))]
        GM.pdf(xq, means, **kw)
        GM.logpdf(xq, means, **kw)
    # positional call form used by the SMC sampler: (x, means, cov, weights)
    GM.logpdf(P if d >= 2 else P[:, 0], means, kw.get('cov', 1), w)
    # the sampler
    pure, desc = make_constraint(case, rng, M, W, C)
    size = case['size']
    accepted, seen_n = [], [0]

    def recording(z):
        lp = pure(z)
        if len(lp) == 0:
            return lp
        zr = np.asarray(z, dtype=float).reshape(len(lp), -1)
        ok = np.isfinite(lp)
        seen_n[0] += len(lp)
        for row in zr[ok]:
            accepted.append(row.tobytes())
        return lp
    recording.vmon_pure = pure
    rs = BudgetRandomState(int(rng.integers(0, 2 ** 31)))
    if case.get('rare') and desc.get('kind') == 'half':
        rs.rounds = 400000
        ctx.event('rvs_rare_constraint_cases')
    rkw = dict(kw)
    if case['cons'] != 'none':
        rkw['prior_logpdf'] = recording
    try:
        out = GM.rvs(means, size=size, random_state=rs, **rkw)
    except RoundBudgetExceeded:
        raise Violation('rvs-does-not-return', 'GMDistribution.rvs(size=%r) made more than 3000 proposal rounds under a constraint of mixture mass >= 20 %%' % (size,),
                        {'means': M, 'cov': C, 'weights': W, 'constraint': desc})
    if size is None:
        ctx.event('rvs_size_none')
    if case['cons'] != 'none':
        ctx.event('rvs_constrained')
        rows = np.asarray(out, dtype=float).reshape(1 if size is None else size, -1)
        pool = {}
        for b in accepted:
            pool[b] = pool.get(b, 0) + 1
        for r in rows:
            ctx.event('rvs_membership_checked')
            if pool.get(r.tobytes(), 0) <= 0:
                raise Violation('rvs-row-not-accepted', 'GMDistribution.rvs returned the point %r, which is not one of the proposals the constraint accepted' % (r.tolist(),),
                                {'means': M, 'cov': C, 'weights': W, 'constraint': desc, 'returned': rows})
        ctx.event('rvs_rejected_proposals', seen_n[0] - len(accepted))
    ctx.nontrivial(d >= 2 or (w is not None and bool(np.any(w == 0))))


def _run_sample(ctx, case, eu):
    import elfi.methods.results as res
    rng = np.random.default_rng([case['seed'], 4])
    n = case['n']
    a = derive_x(rng, n, case['xs'])
    b = derive_x(rng, n, 'cont')
    w = derive_w(rng, n, case['ws'])
    w = None if w is None else np.asarray(w, dtype=float)
    s = res.Sample(method_name='vmon', outputs={'a': a, 'b': b, 'd': rng.random(n)}, parameter_names=['a', 'b'],
                   discrepancy_name='d', weights=w)
    before = ctx.counters['contract_weighted_sample_quantile']
    alphas = [0.5, float(rng.random()), 0.0, 1.0]
    bnd = boundaries(a, w)
    bnd = bnd[bnd <= 1.0]
    on = False
    if len(bnd):
        alphas.append(float(rng.choice(bnd)))
        on = True
    for al in alphas:
        q = s.sample_quantiles(alpha=al)
        if list(q.keys()) != ['a', 'b']:
            raise Violation('sample-quantiles-keys', 'Sample.sample_quantiles keys %r' % (list(q.keys()),))
    ci = s.sample_means_and_95CIs
    for name in ('a', 'b'):
        if not ci[name][1] <= ci[name][2]:
            raise Violation('quantile-not-monotone', '95%% interval of %s has lower end %r > upper end %r' % (name, ci[name][1], ci[name][2]),
                            {'x': s.samples[name], 'weights': w})
    fired = ctx.counters['contract_weighted_sample_quantile'] - before
    ctx.event('quantile_via_results', fired)
    assert fired >= 2 * len(alphas) + 4, 'quantile contract fired only %d times through elfi.methods.results' % fired
    ties = len(np.unique(a)) < n
    zeros = w is not None and bool(np.any(w == 0))
    ctx.nontrivial(ties or zeros or on)


def run_case(ctx, case):
    import elfi.methods.utils as eu
    with contracts.attached(ctx, *specs(ctx)):
        kind = case['kind']
        if kind == 'quantile':
            _run_quantile(ctx, case, eu)
        elif kind == 'var_ess':
            _run_var_ess(ctx, case, eu)
        elif kind == 'gm':
            _run_gm(ctx, case, eu)
        else:
            _run_sample(ctx, case, eu)
