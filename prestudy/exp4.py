import shim, numpy as np, math, scipy.stats as ss
from scipy.special import gammaln
from elfi.methods.bsl import pdf_methods as pm
from elfi.methods.inference.bsl import BSL
rs = np.random.RandomState(0)
for d in (1,2,3):
    n=50
    ssx = rs.randn(n,d) @ rs.randn(d,d) + rs.randn(d)
    ssy = ssx.mean(0) + 0.3*rs.randn(d)
    got = pm.gaussian_syn_likelihood_ghurye_olkin(ssx, ssy)[0]
    # published: Price et al 2018 eq. (5)
    mu = ssx.mean(0); S = np.cov(ssx, rowvar=False).reshape(d,d); M=(n-1)*S
    def logc(k,v): return -k*v/2*math.log(2) - k*(k-1)/4*math.log(math.pi) - sum(gammaln(0.5*(v-i+1)) for i in range(1,k+1))
    diff = (ssy-mu).reshape(-1,1)
    psi = M - diff@diff.T/(1-1/n)
    ref = -d/2*math.log(2*math.pi) + logc(d,n-2) - logc(d,n-1) - d/2*math.log(1-1/n) - (n-d-2)/2*np.linalg.slogdet(M)[1] + (n-d-3)/2*np.linalg.slogdet(psi)[1]
    print(d, got, ref, got-ref, 'std:', ss.multivariate_normal.logpdf(ssy, mu, S))
# jacobian
bound = np.array([[0., 1.],[ -np.inf, 2.],[1., np.inf],[-np.inf,np.inf]])
theta = np.array([0.3, 1.2, 2.5, 0.7])
tt = BSL._para_logit_transform(theta, bound)
print('roundtrip', BSL._para_logit_back_transform(tt, bound) - theta)
h=1e-6
num = [ (BSL._para_logit_back_transform(tt+h*np.eye(4)[i], bound)[i]-BSL._para_logit_back_transform(tt-h*np.eye(4)[i], bound)[i])/(2*h) for i in range(4)]
print('log num jac', np.log(num).sum(), 'J(tt)', BSL._jacobian_logit_transform(tt, bound), 'J(theta)', BSL._jacobian_logit_transform(theta, bound))
