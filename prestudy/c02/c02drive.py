import subprocess, json, sys, os
from concurrent.futures import ThreadPoolExecutor
VARS=['ref','global_rng','history','order','bh_history','hash1','hash2','client_mp']
def run(case,var):
    env=dict(os.environ); env['PYTHONHASHSEED']={'hash1':'1','hash2':'2'}.get(var,'0'); env['PYTHONPATH']=os.environ.get('PYTHONPATH','')
    env['OMP_NUM_THREADS']='1'
    p=subprocess.run(['/venv/bin/python','/root/scratch/c02/c02run.py',json.dumps(dict(case=case,variant=var))],capture_output=True,text=True,timeout=300,env=env)
    for l in p.stdout.splitlines():
        if l.startswith('RESULT '): return json.loads(l[7:])
    return {'error':p.stderr[-400:]}
cases=range(int(sys.argv[1]),int(sys.argv[2])); bad=[]; n=0; inits={}
with ThreadPoolExecutor(14) as ex:
    futs={(c,v):ex.submit(run,c,v) for c in cases for v in VARS}
    for c in cases:
        ref=futs[(c,'ref')].result()
        if 'error' in ref: bad.append((c,'ref',ref)); continue
        if not ref.get('discipline'): bad.append((c,'discipline',ref))
        for v in VARS[1:]:
            r=futs[(c,v)].result(); n+=1
            if 'error' in r: bad.append((c,v,r)); continue
            for k in ('gen','bh','rej','smc'):
                if r[k]!=ref[k]: bad.append((c,v,k,r[k],ref[k]))
            if v!='client_mp':
                if r.get('order')!=ref.get('order'): bad.append((c,v,'exec order',r.get('order'),ref.get('order')))
                if r.get('init')!=ref.get('init') or r.get('inits')!=ref.get('inits'): bad.append((c,v,'init state'))
                if not r.get('discipline'): bad.append((c,v,'discipline'))
            if r.get('bh_repeat_mismatch'): bad.append((c,v,'bh repeat'))
print('variants compared',n,'bad',len(bad))
for b in bad[:6]: print(str(b)[:500])
