import shim, numpy as np, elfi, warnings
import elfi.examples.ma2 as ma2
def run(pool=None, n_sim=500, **kw):
    m = ma2.get_model(seed_obs=1)
    rej = elfi.Rejection(m['d'], batch_size=100, seed=7, pool=pool, output_names=['S1','S2'], **kw)
    return rej.sample(10, n_sim=n_sim, bar=False)
a = run()
for stores in (['S1'], ['t1','t2','S1'], ['t1','t2','S1','S2'], ['t1','t2','d'], ['t1','t2'], ['t1','t2','MA2','S1']):
    pool = elfi.OutputPool(stores)
    b = run(pool)
    c = run(pool)
    okb = all(np.array_equal(a.outputs[k], b.outputs[k]) for k in a.outputs)
    okc = all(np.array_equal(a.outputs[k], c.outputs[k]) for k in a.outputs)
    print(stores, 'fill==nopool', okb, 'reuse==nopool:', okc)
