import compat, numpy as np, warnings, sys
compat.install(); warnings.simplefilter('ignore')
import logging; logging.disable(logging.CRITICAL)
from elfi.methods.inference.romc import NDimBoundingBox, line_search
from elfi.methods.posteriors import RomcPosterior
rs=np.random.RandomState(int(sys.argv[1])); viol=[]; amb=0; n=0
for it in range(int(sys.argv[2])):
    d=rs.randint(1,7); Q,_=np.linalg.qr(rs.randn(d,d)); c=rs.randn(d)*rs.choice([1,100,1e3])
    lim=np.column_stack([-rs.exponential(1,d)*(rs.rand(d)>0.15), rs.exponential(1,d)*(rs.rand(d)>0.15)])
    bb=NDimBoundingBox(Q,c,lim); L=bb.limits
    assert bb.volume>0 and np.isclose(bb.volume,np.prod(L[:,1]-L[:,0]))
    pts=bb.sample(50, seed=None if rs.rand()<0.7 else int(rs.randint(99)))
    tol=1e-9*(1+np.abs(c).max()+np.abs(L).max())
    for p in pts:
        n+=1
        if not bb.contains(p):
            z=Q.T@(p-c)
            if np.any(z<L[:,0]-tol) or np.any(z>L[:,1]+tol): viol.append(('sample outside',d,z,L))
            else: amb+=1
    # pdf inside/outside
    for k in range(10):
        z=L[:,0]+(L[:,1]-L[:,0])*rs.uniform(0.01,0.99,d); inside=True
        if rs.rand()<0.5:
            j=rs.randint(d); z[j]=L[j,1]+(L[j,1]-L[j,0])*rs.uniform(0.01,2) if rs.rand()<0.5 else L[j,0]-(L[j,1]-L[j,0])*rs.uniform(0.01,2); inside=False
        p=Q@z+c; got=bb.pdf(p); ref=1/bb.volume if inside else 0.0
        if not np.isclose(got,ref): viol.append(('pdf',inside,got,ref))
    # line search
    probes=[]; A=rs.randn(d,d); A=A@A.T+np.eye(d)*0.1; x0=rs.randn(d)
    def f(x): v=float((x-x0)@A@(x-x0)); probes.append((x.copy(),v)); return v
    vd=Q[:,rs.randint(d)]; eps=rs.choice([1e-6,0.1,1.0,10.0]); eta=rs.choice([0.1,1.0,3.0]); K=rs.randint(1,12); rep=rs.choice([2,10,300])
    off=line_search(f,x0.copy(),vd,eps,K=K,eta=eta,rep_lim=rep)
    if not off>0: viol.append(('offset not positive',off))
    for x,v in probes:
        o=(x-x0)@vd
        if -1e-12<=o<=off*(1+1e-12)+1e-15 and not v<eps: viol.append(('probe above eps within offset',o,off,v,eps)); break
print('n',n,'ambiguous',amb,'viol',len(viol)); 
for v in viol[:5]: print(str(v)[:300])
