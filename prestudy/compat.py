import builtins, numpy as np
for a,b in [('Inf',np.inf),('NINF',-np.inf),('row_stack',np.vstack)]:
    if not hasattr(np,a): setattr(np,a,b)
def _float(x=0.0):
    if isinstance(x, np.ndarray) and x.ndim > 0 and x.size == 1:
        return builtins.float(x.reshape(()).item())
    return builtins.float(x)
def install():
    import importlib
    for mod in ['elfi.methods.bo.gpy_regression','elfi.methods.posteriors','elfi.methods.mcmc']:
        m = importlib.import_module(mod)
        m.float = _float
    import elfi.methods.inference.bsl as bsl
    from elfi.model.extensions import ModelPrior
    class BslPrior(ModelPrior):
        def logpdf(self, x):
            v = super().logpdf(x)
            return v.item() if isinstance(v, np.ndarray) and v.ndim>0 and v.size==1 else v
    bsl.ModelPrior = BslPrior
