import sys, json, os
sys.path.insert(0,'/root/scratch'); sys.path.insert(0,'/root/scratch/c02')
import compat, numpy as np, elfi, warnings, random, hashlib
compat.install(); warnings.simplefilter('ignore')
import logging; logging.disable(logging.CRITICAL)
import c02ops as O
import elfi.client
from elfi.model.elfi_model import ComputationContext
def gen(rng):
    k=rng.randint(1,3); spec=[]
    names=rng.sample(['alpha','beta','gamma','delta','zeta','mu','nu','xi'],k+3)
    for i in range(k):
        fam=rng.choice(['norm','uniform','expon']); par=[]
        if i>0 and rng.random()<0.5: par=[names[rng.randrange(i)]]
        spec.append(dict(name=names[i],kind='prior',fam=fam,par=par))
    spec.append(dict(name=names[k],kind='sim',par=names[:k],width=rng.choice([1,3])))
    spec.append(dict(name=names[k+1],kind='summary',par=[names[k]]))
    spec.append(dict(name=names[k+2],kind='prior2',fam='norm',par=[names[0]]))   # extra stochastic node after sim alphabetically maybe
    spec.append(dict(name='dist',kind='dist',par=[names[k+1]]))
    return spec
def build(spec, order=None):
    m=elfi.ElfiModel(name='m'); refs={}; pend=[s['name'] for s in spec] if order is None else list(order); S={s['name']:s for s in spec}
    while pend:
        for n in list(pend):
            s=S[n]
            if all(p in refs for p in s['par']):
                P=[refs[p] for p in s['par']]
                if s['kind'] in('prior','prior2'):
                    args=P+([1.0] if s['fam'] in('norm','uniform') and P else ([0.0,1.0] if s['fam'] in ('norm','uniform') else [0.0]))
                    if s['fam']=='expon' and P: args=P
                    refs[n]=elfi.Prior(O.RecDist(n,s['fam']),*args,model=m,name=n)
                elif s['kind']=='sim': refs[n]=elfi.Simulator(O.NumOp(n,'sim',s['width']),*P,model=m,name=n,observed=np.zeros((1,s['width'])))
                elif s['kind']=='summary': refs[n]=elfi.Summary(O.NumOp(n,'sum'),*P,model=m,name=n)
                else: refs[n]=elfi.Distance('euclidean',*P,model=m,name=n)
                pend.remove(n)
    return m
def digest(res, names): 
    h=hashlib.sha256()
    for n in sorted(names):
        a=np.asarray(res[n]); h.update(n.encode()); h.update(str(a.dtype).encode()); h.update(str(a.shape).encode()); h.update(a.tobytes())
    return h.hexdigest()[:16]
def main():
    job=json.loads(sys.argv[1]); rng=random.Random(job['case']); spec=gen(rng); names=[s['name'] for s in spec]
    seed=rng.randint(0,2**31-1); bs=rng.choice([1,4,9]); var=job['variant']; out={}
    if var=='client_mp':
        import elfi.clients.multiprocessing as mp; c=mp.Client(num_processes=3); elfi.client.set_client(c)
    if var=='global_rng': np.random.seed(job['case']%97); np.random.rand(job['case']%13)
    if var=='history':
        m0=build(gen(random.Random(job['case']+1))); m0.generate(3,seed=5); m0.generate(2)
        import elfi.examples.ma2 as ma2; elfi.Rejection(ma2.get_model(seed_obs=1)['d'],batch_size=10,seed=1).sample(3,n_sim=20,bar=False)
    order=None
    if var=='order': order=names[:]; random.Random(job['case']+7).shuffle(order)
    m=build(spec,order)
    O.LOG.clear()
    res=m.generate(bs,names,seed=seed); out['gen']=digest(res,names)
    log=list(O.LOG)
    # generator discipline (in-process only)
    if var!='client_mp' and log:
        ok = len({l[1] for l in log})==1 and all(log[i][3]==log[i+1][2] for i in range(len(log)-1))
        out['discipline']=ok; out['order']=[l[0] for l in log]; out['init']=log[0][2]
    # batch handler history
    ctx=ComputationContext(batch_size=bs,seed=seed); bh=elfi.client.BatchHandler(m,ctx,output_names=names)
    idxs=[0,1,2,3,4]
    if var=='bh_history': idxs=[4,0,2,2,1,3,0,4]
    got={}
    for i in idxs:
        O.LOG.clear(); r=bh.compute(i); d=digest(r,names)
        if i in got and got[i]!=d: out['bh_repeat_mismatch']=True
        got[i]=d
        if var!='client_mp' and O.LOG: out.setdefault('inits',{})[str(i)]=O.LOG[0][2]
    out['bh']=[got[i] for i in range(5)]
    # sampler
    r=elfi.Rejection(m['dist'],batch_size=bs,seed=seed).sample(4,n_sim=bs*5,bar=False); out['rej']=digest(r.outputs,list(r.outputs))
    r=elfi.SMC(m['dist'],batch_size=max(bs,4),seed=seed).sample(6,quantiles=[0.5,0.5],bar=False); out['smc']=digest(r.outputs,list(r.outputs))+str(r.n_sim)
    if var=='client_mp': c.pool.terminate()
    print('RESULT '+json.dumps(out))
main()
