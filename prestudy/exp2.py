import shim, numpy as np, elfi
m = elfi.ElfiModel(name='m')
t = elfi.Prior('uniform', 0, 1, model=m, name='t')
def sim(t, batch_size=1, random_state=None): return t + random_state.randn(batch_size)
S = elfi.Simulator(sim, t, observed=np.array([0.5]), name='S')
c = m.copy()
print('shared attr_dict:', c.source_net.nodes['t']['attr_dict'] is m.source_net.nodes['t']['attr_dict'])
print('shared observed:', c.observed is m.observed)
c.observed['S'] = np.array([99.])
print('orig observed after copy edit:', m.observed)
c.parameter_names = []
print('orig parameter_names after copy flag edit:', m.parameter_names)
