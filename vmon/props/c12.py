"""C12 - Distance nodes compute the stated metric; adaptive scales ignore batching.

Reference-model monitor (DESIGN.md section 5 / C12): every observed distance output is compared with
scipy.spatial.distance.cdist called directly on harness-stacked arrays; every adaptive scale with
numpy.std(all rows of the round, axis=0) whatever the partition into add_data calls; the newest adaptive
distance with the Euclidean distance of summaries / scale; earlier distance columns must stay unchanged.
The same oracles run on the node inside Rejection and AdaptiveDistanceSMC (history monitor on update()).
"""
import functools
import math

import numpy as np
import scipy.spatial.distance as ssd

from vmon.core import Skip, Violation

PROPERTY = 'C12'
LEVEL = 'exploration'
TECHNIQUE = ('runtime monitoring: reference-model monitor (scipy cdist / numpy.std evaluated directly on harness-stacked arrays) on '
             'distance-node outputs and AdaptiveDistance state, plus a history monitor on update() of Rejection / AdaptiveDistanceSMC')
LEVEL_TEXT = ('Held on every generated case: outputs of real Distance / AdaptiveDistance nodes (node.generate with supplied values, '
              'model.generate, and inside Rejection / AdaptiveDistanceSMC runs) equal the directly evaluated scipy metric, the population '
              'standard deviation of all rows of the round, and the scaled Euclidean distance. Exploration over shapes x metrics x '
              'partitions x rounds, not exhaustive.')
LEVEL_NOTE = 'trusts: scipy.spatial.distance.cdist, numpy.std, the harness stacking (hstack of (n, w) blocks); compat layer for the samplers'
RULE = ('cases = (a) Distance node: 1-4 summaries of widths 1-4 (width 1 as (n,) or (n,1)), batch size 1-20, metric in {euclidean, '
        'cityblock, chebyshev, sqeuclidean, canberra, braycurtis, cosine, correlation, minkowski(p), weighted minkowski(p,w), weighted '
        'euclidean/cityblock/chebyshev(w), seuclidean(V), mahalanobis(VI)}; (b) AdaptiveDistance driven directly: 1-4 update rounds, data '
        'sets split into singletons / one block / random partitions; (c) Rejection and (d) AdaptiveDistanceSMC with an adaptive distance; '
        'distinct = hash of the case; non-trivial = at least 2 rows or 2 summaries (adaptive: at least 2 add_data calls in a round)')
ASSUMPTIONS = ['rtol 1e-9 (atol 1e-12 x magnitude) between elfi outputs and the directly evaluated definition; for the adaptive scale the bound is '
               'widened by 1e3*eps*(max|x|/std)^2 (rounding of running-variance recurrences on ill-conditioned columns)',
               'adaptation data are continuous with at least 2 distinct rows per round (zero scale is outside the domain)',
               'inside samplers the rows of a round are the batches delivered to update() during that round']
CONFIG = {
    'quick': {'shards': 16, 'cases': 720, 'timeout': 600, 'floor': 1800},
    'thorough': {'shards': 32, 'cases': 7500, 'timeout': 5400, 'floor': 40000},
}
REQUIRED = ['dist_with_values_checks', 'dist_generate_checks', 'dist_batch_size_1', 'dist_metric_with_kwargs',
            'dist_scalar_summaries', 'dist_vector_summaries', 'adapt_add_data_calls', 'adapt_scale_checks',
            'adapt_updates', 'adapt_newest_checks', 'adapt_earlier_checks', 'adapt_rounds_ge2',
            'rejection_runs', 'rejection_rows_checked', 'rejection_second_sample', 'smc_runs', 'smc_populations_checked',
            'dist_integer_or_float32_summaries', 'dist_unsigned_summaries']

KINDS = ['dist', 'adirect', 'dist', 'arej', 'dist', 'adirect', 'dist', 'asmc', 'dist', 'adirect', 'dist', 'dist']
PLAIN = ['euclidean', 'cityblock', 'chebyshev', 'sqeuclidean', 'canberra', 'braycurtis', 'cosine', 'correlation']
RTOL = 1e-9
EPS = float(np.finfo(float).eps)


# ---------------------------------------------------------------------------------------------------------
# model pieces (module level; the spec is plain data)
def sim_fn(a, batch_size=1, random_state=None, coef=None, scale=None, offset=None, cap=None):
    if cap is not None:
        cap[0] += 1
        if cap[0] > cap[1]:
            raise BudgetExceeded()
    a = np.asarray(a, dtype=float).reshape(batch_size, 1)
    z = random_state.randn(batch_size, len(coef))
    return offset + scale * (a * coef + z)


def slice_fn(x, lo=0, hi=1, flat=False):
    return x[:, lo] if flat else x[:, lo:hi]


class BudgetExceeded(Exception):
    pass


def layout(spec):
    """[(name, lo, hi, flat)] for the summaries of a spec."""
    out, lo = [], 0
    for j, (w, flat) in enumerate(zip(spec['widths'], spec['flat'])):
        out.append(('s%d' % j, lo, lo + w, bool(flat and w == 1)))
        lo += w
    return out


def arrays(spec):
    rs = np.random.RandomState(spec['mseed'])
    W = sum(spec['widths'])
    scale = np.exp(rs.uniform(math.log(spec.get('smin', 0.05)), math.log(spec.get('smax', 50.0)), W))
    offset = rs.randn(W) * scale * spec.get('offs', 3.0)
    coef = rs.uniform(-2, 2, W)
    obs = (offset + scale * (1.0 * coef + rs.randn(W)))[None, :]
    return W, scale, offset, coef, obs


def build(spec, adaptive, cap=None, obs_override=None):
    import elfi
    W, scale, offset, coef, obs = arrays(spec)
    if obs_override is not None:
        obs = obs_override
    m = elfi.ElfiModel(name='c12')
    if spec.get('prior', 'uniform') == 'uniform':
        a = elfi.Prior('uniform', -1.0, 4.0, model=m, name='a')
    else:
        a = elfi.Prior('norm', 1.0, 1.5, model=m, name='a')
    S = elfi.Simulator(functools.partial(sim_fn, coef=coef, scale=scale, offset=offset, cap=cap), a, model=m, name='S',
                       observed=obs.copy())
    sums = [elfi.Summary(functools.partial(slice_fn, lo=lo, hi=hi, flat=flat), S, model=m, name=name)
            for name, lo, hi, flat in layout(spec)]
    if adaptive:
        d = elfi.AdaptiveDistance(*sums, model=m, name='d')
    else:
        d = elfi.Distance(spec['metric'], *sums, model=m, name='d', **metric_kwargs(spec))
    return m, d, obs


def metric_kwargs(spec):
    return {k: (np.array(v, dtype=float) if isinstance(v, list) else v) for k, v in spec.get('mkw', {}).items()}


def split(spec, X):
    """Harness data block (n, W) -> dict of per-summary arrays in the shapes the summaries produce."""
    return {name: (X[:, lo].copy() if flat else X[:, lo:hi].copy()) for name, lo, hi, flat in layout(spec)}


def stack(spec, outputs, n):
    """Independent stacking of per-summary outputs: hstack of (n, w) blocks in summary order."""
    return np.hstack([np.asarray(outputs[name], dtype=float).reshape(n, hi - lo) for name, lo, hi, _ in layout(spec)])


def close(a, b, rtol=None):
    rtol = RTOL if rtol is None else rtol
    a, b = np.asarray(a, dtype=float), np.asarray(b, dtype=float)
    if a.shape != b.shape:
        return False
    if a.size == 0:
        return True
    fin = np.isfinite(b)
    mag = float(np.max(np.abs(b[fin]))) if fin.any() else 0.0
    return bool(np.allclose(a, b, rtol=rtol, atol=1e-12 * (1.0 + mag), equal_nan=True))


def scaled_euclid(X, obs, scale):
    return np.sqrt(np.sum(((X - obs) / scale) ** 2, axis=1))


def std_tol(rows):
    """(numpy.std per column, admissible absolute deviation per column).

    1e-9 relative, widened for columns far from zero by 1e3 * eps * max|x| absolute: that is the rounding any standard
    deviation computed from centred data carries (numpy.std itself included). A recurrence that squares uncentred data
    loses eps * (max|x| / std)^2 instead and makes the scale depend on how the rows were split into batches - the statement
    rules that out (the unrepaired add_data was off by 2 % for one 1000-row batch at 1e7 +- 2), so it is not admitted."""
    rows = np.asarray(rows, dtype=float)
    sd = np.std(rows, axis=0)
    mx = np.max(np.abs(rows), axis=0)
    with np.errstate(all='ignore'):
        extra = np.where(sd > 0, 1e3 * EPS * mx, 1e-9 * mx)
    return sd, RTOL * sd + extra


def rel_tol(rows):
    sd, tol = std_tol(rows)
    with np.errstate(all='ignore'):
        r = np.where(sd > 0, tol / np.where(sd > 0, sd, 1.0), np.inf)
    return float(2.0 * np.max(r))


# ---------------------------------------------------------------------------------------------------------
# (a) plain Distance nodes
def gen_dist(rng):
    k = int(rng.integers(1, 5))
    widths = [int(rng.integers(1, 5)) for _ in range(k)]
    W = sum(widths)
    spec = {'widths': widths, 'flat': [bool(rng.random() < 0.6) for _ in range(k)], 'mseed': int(rng.integers(0, 2 ** 31 - 1)),
            'bs': int(rng.choice([1, 1, 2, 3, 5, 8, 13, 20])), 'qseed': int(rng.integers(0, 2 ** 31 - 1))}
    choice = str(rng.choice(['plain', 'plain', 'minkowski', 'wminkowski', 'weighted', 'seuclidean', 'mahalanobis']))
    if choice == 'plain':
        metric = str(rng.choice(PLAIN))
        if metric == 'correlation' and W < 2:
            metric = 'euclidean'
        mkw = {}
    elif choice == 'minkowski':
        metric, mkw = 'minkowski', {'p': float(rng.choice([1.0, 1.5, 3.0, 4.5, 7.0]))}
    elif choice == 'wminkowski':
        metric, mkw = 'minkowski', {'p': float(rng.choice([1.0, 1.5, 3.0, 4.5])), 'w': rng.uniform(0.1, 5.0, W).tolist()}
    elif choice == 'weighted':
        metric, mkw = str(rng.choice(['euclidean', 'cityblock', 'chebyshev', 'sqeuclidean'])), {'w': rng.uniform(0.1, 5.0, W).tolist()}
    elif choice == 'seuclidean':
        metric, mkw = 'seuclidean', {'V': np.exp(rng.uniform(-3, 5, W)).tolist()}
    else:
        A = rng.standard_normal((W, W))
        metric, mkw = 'mahalanobis', {'VI': (A @ A.T + 0.3 * np.eye(W)).tolist()}
    spec['metric'], spec['mkw'] = metric, mkw
    return {'kind': 'dist', 'spec': spec}


def check_distance(ctx, spec, got, X, obs, where):
    n = len(X)
    exp = ssd.cdist(X, obs, spec['metric'], **metric_kwargs(spec))[:, 0]
    got = np.asarray(got)
    if got.shape != (n,):
        raise Violation('distance-shape', '%s: distance output has shape %s, expected one value per row (%d,)' % (where, got.shape, n),
                        {'metric': spec['metric'], 'widths': spec['widths'], 'flat': spec['flat']})
    if not close(got, exp):
        raise Violation('distance-value', '%s: output differs from scipy cdist(%s%s) on the stacked summaries' % (
            where, spec['metric'], ', ' + ','.join(sorted(spec['mkw'])) if spec['mkw'] else ''),
            {'got': got, 'expected': exp, 'X': X, 'observed': obs, 'mkw': spec['mkw']})


def run_dist(ctx, case):
    spec = case['spec']
    m, d, obs = build(spec, adaptive=False)
    W, scale, offset, coef, _ = arrays(spec)
    n = spec['bs']
    rs = np.random.RandomState(spec['qseed'])
    X = offset + scale * (coef + 1.5 * rs.randn(n, W))
    if rs.rand() < 0.15:
        X[0] = obs[0]                                   # a row equal to the observation (distance 0)
    got = d.generate(n, with_values=split(spec, X))
    check_distance(ctx, spec, got, X, obs, 'node.generate(with_values)')
    ctx.event('dist_with_values_checks')
    out = m.generate(n, outputs=['d'] + [l[0] for l in layout(spec)], seed=int(spec['qseed'] % (2 ** 31)))
    for name, lo, hi, flat in layout(spec):
        if np.asarray(out[name]).shape != ((n,) if flat else (n, hi - lo)):
            raise Skip('summary shape not as specified')     # harness precondition, never expected
    check_distance(ctx, spec, out['d'], stack(spec, out, n), obs, 'model.generate')
    ctx.event('dist_generate_checks')
    if spec['qseed'] % 3 == 0:
        # count-valued summaries in the integer dtypes simulators of count data produce (unsigned and narrow ones included):
        # the metric is between the VALUES, whatever the storage type
        dts = ['uint8', 'uint16', 'uint32', 'uint64', 'int8', 'int16', 'int64', 'float32']
        dt = np.dtype(dts[int(rs.randint(len(dts)))])
        top = 120 if dt.kind != 'f' else 1000
        Xi = rs.randint(0, top, size=(n, W)).astype(dt)
        obs_i = rs.randint(0, top, size=(1, W)).astype(dt)
        if spec['metric'] in ('correlation', 'cosine'):
            Xi[:, 0] += 1
            obs_i[:, 0] += 1                                  # no constant / all-zero rows for the angle-type metrics
            Xi[:, -1] = (Xi[:, -1] // 2 + np.arange(n) % 2 + 2).astype(dt)
        m2, d2, _ = build(spec, adaptive=False, obs_override=obs_i.copy())
        got = d2.generate(n, with_values=split(spec, Xi))
        Xf, of = Xi.astype(float), obs_i.astype(float)
        if np.all(np.isfinite(ssd.cdist(Xf, of, spec['metric'], **metric_kwargs(spec)))):
            check_distance(ctx, spec, got, Xf, of, 'node.generate(with_values) on %s summaries' % dt)
            ctx.event('dist_integer_or_float32_summaries')
            ctx.event('dist_unsigned_summaries', dt.kind == 'u')
    ctx.event('dist_batch_size_1', n == 1)
    ctx.event('dist_metric_with_kwargs', bool(spec['mkw']))
    ctx.event('dist_scalar_summaries', sum(1 for l in layout(spec) if l[3]))
    ctx.event('dist_vector_summaries', sum(1 for l in layout(spec) if not l[3]))
    ctx.distinct('metric', spec['metric'] + '|' + ','.join(sorted(spec['mkw'])))
    ctx.nontrivial(n >= 2 or len(spec['widths']) >= 2)


# ---------------------------------------------------------------------------------------------------------
# (b) AdaptiveDistance driven directly
def _model_spec(rng):
    k = int(rng.integers(1, 5))
    return {'widths': [int(rng.integers(1, 5)) for _ in range(k)], 'flat': [bool(rng.random() < 0.6) for _ in range(k)],
            'mseed': int(rng.integers(0, 2 ** 31 - 1)), 'offs': float(rng.choice([0.0, 3.0, 50.0, 1e4, 1e6])),
            'prior': str(rng.choice(['uniform', 'norm']))}


def gen_adirect(rng):
    spec = _model_spec(rng)
    if spec['mseed'] % 5 == 0:
        # summaries in wildly different units (1e-20 ... 1): the scale is whatever the population standard deviation is,
        # also when it is far below machine epsilon in absolute terms
        spec['smin'], spec['smax'], spec['offs'] = 1e-20, 1.0, min(spec['offs'], 50.0)
    rounds = []
    for _ in range(int(rng.integers(1, 5))):
        n = int(rng.choice([2, 3, 5, 8, 17, 40, 60]))
        kind = str(rng.choice(['singletons', 'block', 'random', 'random']))
        if kind == 'singletons':
            cuts = list(range(n + 1))
        elif kind == 'block':
            cuts = [0, n]
        else:
            cuts = sorted(set([0, n] + [int(c) for c in rng.integers(0, n + 1, size=int(rng.integers(1, 6)))]))
        rounds.append({'n': n, 'cuts': cuts, 'dseed': int(rng.integers(0, 2 ** 31 - 1)), 'nq': int(rng.choice([1, 1, 2, 4, 9]))})
    return {'kind': 'adirect', 'spec': spec, 'rounds': rounds, 'reinit': bool(rng.random() < 0.3), 'nq0': int(rng.choice([1, 3, 6]))}


def check_adaptive_output(ctx, out, Q, obs, scales, where, earlier=None):
    """out: node output for query rows Q when len(scales) updates happened."""
    nq, k = len(Q), len(scales) + 1
    out = np.asarray(out)
    want = (nq,) if k == 1 else (nq, k)
    if out.shape != want:
        raise Violation('adaptive-shape', '%s: output shape %s, expected %s (one column per distance function)' % (where, out.shape, want))
    cols = out.reshape(nq, k)
    e0 = ssd.cdist(Q, obs, 'euclidean')[:, 0]
    if not close(cols[:, 0], e0):
        raise Violation('adaptive-earlier-distance', '%s: column 0 is no longer the unscaled Euclidean distance' % where,
                        {'got': cols[:, 0], 'expected': e0})
    for j, (sc, rt) in enumerate(scales, start=1):
        e = scaled_euclid(Q, obs, sc)
        if not close(cols[:, j], e, rt):
            newest = j == len(scales)
            raise Violation('adaptive-newest-distance' if newest else 'adaptive-earlier-distance',
                            '%s: distance column %d of %d differs from the Euclidean distance of summaries / scale of round %d' % (
                                where, j, k - 1, j), {'got': cols[:, j], 'expected': e, 'scale': sc, 'Q': Q, 'observed': obs})
    if scales:
        ctx.event('adapt_newest_checks')
    if earlier is not None:
        if not np.allclose(cols[:, :earlier.shape[1]], earlier, rtol=1e-12, atol=0.0):
            raise Violation('adaptive-earlier-distance', '%s: earlier distance columns changed after the update' % where,
                            {'before': earlier, 'after': cols[:, :earlier.shape[1]]})
        ctx.event('adapt_earlier_checks')
    return cols


def check_scale(ctx, d, rows, where):
    exp, tol = std_tol(rows)
    got = np.asarray(d.state['scale'], dtype=float)
    ctx.event('adapt_scale_checks')
    if got.shape != exp.shape or not np.all(np.abs(got - exp) <= tol):
        raise Violation('adaptive-scale', '%s: scale differs from numpy.std of all %d rows added in the round' % (where, len(rows)),
                        {'scale': got, 'expected': exp, 'n_rows': len(rows), 'admissible_abs_deviation': tol})
    return exp


def run_adirect(ctx, case):
    spec = case['spec']
    m, d, obs = build(spec, adaptive=True)
    W, scale, offset, coef, _ = arrays(spec)
    rs0 = np.random.RandomState(spec['mseed'] ^ 0x5bd1)
    if case['reinit']:                                   # a used node must be fully reset by init_state()
        junk = offset + scale * rs0.randn(7, W)
        d.add_data(*split(spec, junk).values())
        d.update_distance()
        d.add_data(*split(spec, junk[:3]).values())
        d.init_state()
        ctx.event('adapt_reinit')
    Q0 = offset + scale * (coef + 1.5 * rs0.randn(case['nq0'], W))
    scales = []
    prev = check_adaptive_output(ctx, d.generate(len(Q0), with_values=split(spec, Q0)), Q0, obs, scales, 'before any update')
    multi = False
    for r, rd in enumerate(case['rounds']):
        rs = np.random.RandomState(rd['dseed'])
        a = rs.uniform(-1, 3, (rd['n'], 1))
        X = offset + scale * (a * coef + rs.randn(rd['n'], W))
        calls = 0
        for lo, hi in zip(rd['cuts'][:-1], rd['cuts'][1:]):
            if hi <= lo:
                continue
            d.add_data(*split(spec, X[lo:hi]).values())
            calls += 1
            ctx.event('adapt_add_data_calls')
            check_scale(ctx, d, X[:hi], 'round %d after add_data call %d' % (r + 1, calls))
        sc = np.std(X, axis=0)
        if not np.all(sc > 0):
            raise Skip('zero scale')
        multi = multi or calls >= 2
        d.update_distance()
        ctx.event('adapt_updates')
        rt = rel_tol(X)
        scales.append((sc, rt))
        w = d.state['w']
        if len(w) != len(scales) + 1 or not close(w[-1], 1.0 / sc, rt):
            raise Violation('adaptive-weights', "round %d: state['w'] has %d entries / newest differs from 1/scale" % (r + 1, len(w)),
                            {'w_newest': w[-1], 'expected': 1.0 / sc})
        prev = check_adaptive_output(ctx, d.generate(len(Q0), with_values=split(spec, Q0)), Q0, obs, scales,
                                     'after update %d' % (r + 1), earlier=prev)
        Q = offset + scale * (coef + 1.5 * rs.randn(rd['nq'], W))
        check_adaptive_output(ctx, d.generate(len(Q), with_values=split(spec, Q)), Q, obs, scales, 'after update %d, fresh rows' % (r + 1))
    ctx.event('adapt_rounds_ge2', len(scales) >= 2)
    ctx.distinct('adaptive_partition', '%d|%s' % (len(scales), multi))
    ctx.nontrivial(multi)


# ---------------------------------------------------------------------------------------------------------
# (c), (d) inside samplers
def gen_sampler(rng, kind):
    spec = _model_spec(rng)
    spec['offs'] = float(rng.choice([0.0, 3.0]))
    case = {'kind': kind, 'spec': spec, 'bs': int(rng.choice([1, 2, 5, 10, 25])), 'seed': int(rng.integers(0, 2 ** 31 - 1)),
            'n': int(rng.choice([2, 5, 10, 20])), 'mpb': int(rng.integers(1, 4))}
    if kind == 'arej':
        case['obj'] = {'n_sim': int(case['n'] * rng.integers(1, 8) + rng.integers(0, 7))} if rng.random() < 0.6 else \
            {'quantile': float(rng.choice([0.1, 0.25, 0.5, 1.0]))}
        case['again'] = bool(rng.random() < 0.5)
    else:
        case['bs'] = int(rng.choice([5, 10, 25, 50]))
        case['n'] = int(rng.choice([5, 10, 20]))
        case['rounds'] = int(rng.integers(1, 4))
        case['quantile'] = float(rng.choice([0.5, 0.5, 0.3, 0.8]))
    return case


def recorder(sampler, hist, names, round_of):
    upd = sampler.update

    def recording_update(batch, batch_index):
        hist.append((round_of(), {k: np.array(batch[k], copy=True) for k in names}))
        return upd(batch, batch_index)

    sampler.update = recording_update


def check_returned(ctx, spec, outputs, threshold, obs, sc, rt, where, n_expected):
    names = [l[0] for l in layout(spec)]
    dd = np.asarray(outputs['d'])
    n = len(np.asarray(outputs[names[0]]))
    if n != n_expected or dd.shape != (n,):
        raise Violation('adaptive-returned-shape', '%s: %d rows / distance shape %s, expected %d rows and one newest distance per row' % (
            where, n, dd.shape, n_expected))
    X = stack(spec, outputs, n)
    e = scaled_euclid(X, obs, sc)
    if not close(dd, e, rt):
        raise Violation('adaptive-returned-distance-row-mismatch', '%s: returned distance of row i is not the newest distance (Euclidean of '
                        'summaries / scale) of returned row i' % where, {'returned_d': dd, 'newest_distance_of_returned_rows': e, 'scale': sc})
    if not np.all(dd[:-1] <= dd[1:]):
        raise Violation('adaptive-returned-distance-not-ascending', '%s: returned newest distances are not ascending' % where, {'d': dd})
    if not close(threshold, np.max(dd)):
        raise Violation('adaptive-threshold', '%s: reported threshold %r is not the largest returned distance %r' % (where, threshold, np.max(dd)))
    return n


def run_arej(ctx, case):
    import elfi
    spec = case['spec']
    m, d, obs = build(spec, adaptive=True)
    names = [l[0] for l in layout(spec)]
    rej = elfi.Rejection(m['d'], batch_size=case['bs'], seed=case['seed'], max_parallel_batches=case['mpb'])
    hist = []
    recorder(rej, hist, names, lambda: 0)
    W, scale, offset, coef, _ = arrays(spec)
    Q = offset + scale * (coef + 1.5 * np.random.RandomState(case['seed']).randn(4, W))
    scales, prev = [], None
    for it in range(2 if case['again'] else 1):
        del hist[:]
        res = rej.sample(case['n'], bar=False, **case['obj'])
        rows = np.vstack([stack(spec, b, case['bs']) for _, b in hist])
        sc = np.std(rows, axis=0)
        if not np.all(sc > 0):
            raise Skip('zero scale')
        ctx.event('adapt_add_data_calls', len(hist))
        w = d.state['w']
        rt = rel_tol(rows)
        if len(w) != len(scales) + 2 or not close(w[-1], 1.0 / sc, rt):
            raise Violation('adaptive-scale', "Rejection run %d: newest state['w'] is not 1/numpy.std of the %d rows of the %d consumed batches" % (
                it + 1, len(rows), len(hist)), {'w_newest': w[-1], 'expected': 1.0 / sc, 'n_w': len(w)})
        ctx.event('adapt_scale_checks')
        ctx.event('adapt_updates')
        scales.append((sc, rt))
        ctx.event('rejection_rows_checked', check_returned(ctx, spec, res.outputs, res.threshold, obs, sc, rt, 'Rejection run %d' % (it + 1), case['n']))
        prev = check_adaptive_output(ctx, d.generate(len(Q), with_values=split(spec, Q)), Q, obs, scales, 'node after Rejection run %d' % (it + 1),
                                     earlier=prev)
        ctx.event('rejection_runs')
        ctx.event('rejection_second_sample', it == 1)
        ctx.nontrivial(len(hist) >= 2)
    ctx.event('adapt_rounds_ge2', len(scales) >= 2)


def run_asmc(ctx, case):
    import elfi
    spec = case['spec']
    cap = [0, 6000]
    m, d, obs = build(spec, adaptive=True, cap=cap)
    names = [l[0] for l in layout(spec)]
    smc = elfi.AdaptiveDistanceSMC(m['d'], batch_size=case['bs'], seed=case['seed'], max_parallel_batches=case['mpb'])
    hist = []
    recorder(smc, hist, names, lambda: smc.state['round'])
    try:
        res = smc.sample(case['n'], rounds=case['rounds'], quantile=case['quantile'], bar=False)
    except BudgetExceeded:
        raise Skip('smc simulation budget exceeded (acceptance too low)')
    pops = res.populations
    if len(pops) != case['rounds']:
        raise Violation('adaptive-smc-populations', '%d populations returned, %d rounds requested' % (len(pops), case['rounds']))
    scales = []
    for r, pop in enumerate(pops):
        batches = [b for rr, b in hist if rr == r]
        rows = np.vstack([stack(spec, b, case['bs']) for b in batches])
        sc = np.std(rows, axis=0)
        if not np.all(sc > 0):
            raise Skip('zero scale')
        ctx.event('adapt_add_data_calls', len(batches))
        wr = pop.adaptive_distance_w
        rt = rel_tol(rows)
        if not close(wr, 1.0 / sc, rt) or not close(d.state['w'][r + 1], 1.0 / sc, rt):
            raise Violation('adaptive-scale', 'AdaptiveDistanceSMC round %d: weights are not 1/numpy.std of the %d rows of the %d batches consumed '
                            'in the round' % (r + 1, len(rows), len(batches)), {'w': wr, 'expected': 1.0 / sc})
        ctx.event('adapt_scale_checks')
        ctx.event('adapt_updates')
        scales.append((sc, rt))
        check_returned(ctx, spec, pop.outputs, pop.threshold, obs, sc, rt, 'AdaptiveDistanceSMC population %d' % (r + 1), case['n'])
        ctx.event('smc_populations_checked')
        ctx.nontrivial(len(batches) >= 2)
    if len(d.state['w']) != len(scales) + 1:
        raise Violation('adaptive-weights', "state['w'] has %d entries after %d rounds" % (len(d.state['w']), len(scales)))
    if not all(close(a, 1.0 / s, rt) for a, (s, rt) in zip(res.adaptive_distance_w, scales)):
        raise Violation('adaptive-weights', 'result.adaptive_distance_w differs from 1/scale of the rounds')
    W, scale, offset, coef, _ = arrays(spec)
    Q = offset + scale * (coef + 1.5 * np.random.RandomState(case['seed']).randn(3, W))
    check_adaptive_output(ctx, d.generate(len(Q), with_values=split(spec, Q)), Q, obs, scales, 'node after AdaptiveDistanceSMC')
    ctx.event('smc_runs')
    ctx.event('adapt_rounds_ge2', len(scales) >= 2)


# ---------------------------------------------------------------------------------------------------------
def gen_cases(ctx):
    rng = ctx.rng
    for i in range(ctx.ncases):
        kind = KINDS[(i + ctx.shard) % len(KINDS)]
        if kind == 'dist':
            yield gen_dist(rng)
        elif kind == 'adirect':
            yield gen_adirect(rng)
        else:
            yield gen_sampler(rng, kind)


def run_case(ctx, case):
    {'dist': run_dist, 'adirect': run_adirect, 'arej': run_arej, 'asmc': run_asmc}[case['kind']](ctx, case)
