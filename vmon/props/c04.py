"""C04 - Sampler results do not depend on worker scheduling or parallelism.

Schedule-controlled client (vmon/clients.py) + online client-side assertions + offline
update()-history checker + differential against the sequential native run.  A few runs go
through the real multiprocessing client with schedule-chosen per-batch delays.
"""
import numpy as np

from vmon import models
from vmon.clients import REGIMES, RecordingClient, ScheduledClient
from vmon.core import Violation

PROPERTY = 'C04'
LEVEL = 'exploration'
TECHNIQUE = ('runtime monitoring: schedule-injecting client (seeded readiness answers / execution order), online assertions on the '
             'client API history, offline checker of the update() history, differential against the sequential run')
LEVEL_TEXT = ('Held on every explored schedule: the real Rejection/SMC samplers are driven through a client whose readiness answers and '
              'task execution order are drawn from seeded adversarial schedules (eager, lazy, newest-first, random, bursty) and through the '
              'real multiprocessing client with injected per-batch delays; outstanding<=max_parallel_batches, exactly-once in-order consumption, '
              'no use of cancelled results, empty task table at return and byte-equality with the sequential run are checked on each. '
              'Schedules are sampled, not enumerated; evidence reports distinct interleavings observed.')
LEVEL_NOTE = 'trusts: the scheduled client models only behaviours a ClientBase implementation may exhibit (monotone readiness; unexecuted task never ready); compat layer; dask/ipyparallel clients not driven'
RULE = ('cases = inference-model spec x sampler (Rejection threshold|quantile|n_sim; SMC 2-4 rounds with threshold lists | quantile lists, AdaptiveDistanceSMC 2-3 rounds, optional '
        'continued sampling) x batch_size x n_samples x seed, each run under 3 scheduled clients (regime x schedule seed x cores 1-8 x '
        'max_parallel_batches 1-8) and sometimes the real multiprocessing client; distinct = hash of the case; non-trivial = some schedule of the '
        'case produced an event sequence that differs from the lazy sequential one (a not-ready answer, out-of-order execution or a cancellation)')
ASSUMPTIONS = ["meta['submission_index'] legitimately varies with the schedule and is not compared",
               'no wall-clock time in any verdict; delays in the multiprocessing runs only perturb completion order']
CONFIG = {
    'quick': {'shards': 16, 'cases': 5, 'timeout': 900, 'floor': 30, 'mp_every': 5},
    'thorough': {'shards': 32, 'cases': 210, 'timeout': 5400, 'floor': 2400, 'mp_every': 35},
}
REQUIRED = ['cases_with_output_pool', 'sampler_adsmc', 'cases_with_progress_bar', 'scheduled_runs', 'runs_with_cancellation', 'runs_with_out_of_order_exec', 'runs_with_not_ready',
            'sampler_rej', 'sampler_smc', 'updates_checked', 'distinct_interleaving', 'mp_runs']


def _pilot(spec, seed):
    m = models.build(spec, name='pilot')
    d = m.generate(300, outputs=['d'], seed=int(seed) + 17)['d']
    return np.sort(d[np.isfinite(d)])


def gen_cases(ctx):
    rng = ctx.rng
    made = 0
    while made < ctx.ncases:
        spec = models.gen_spec(rng, flavours=('cont', 'quant', 'inf'))
        sampler = str(rng.choice(['rej', 'smc', 'smc', 'adsmc']))
        bs = int(rng.choice([1, 3, 10, 25]))
        n = int(rng.choice([5, 12, 30]))
        seed = int(rng.integers(0, 2 ** 31 - 1))
        fin = _pilot(spec, seed)
        if len(fin) < 60:
            continue

        def q(p):
            return float(fin[min(len(fin) - 1, int(p * len(fin)))])
        if sampler == 'rej':
            form = str(rng.choice(['threshold', 'quantile', 'n_sim']))
            if form == 'threshold':
                kw = {'threshold': q(float(rng.choice([0.1, 0.3, 0.6])))}
            elif form == 'quantile':
                kw = {'quantile': float(rng.choice([0.1, 0.3]))}
            else:
                kw = {'n_sim': int(n * rng.integers(1, 7) + rng.integers(0, 4))}
        elif sampler == 'adsmc':
            kw = {'rounds': int(rng.integers(2, 4)), 'quantile': float(rng.choice([0.5, 0.7]))}
            spec['disc']['flavour'] = 'cont'
        else:
            rounds = int(rng.integers(2, 5))
            if rng.random() < 0.5:
                kw = {'thresholds': [q(p) for p in [0.6, 0.4, 0.25, 0.15][:rounds]]}
            else:
                # keep the overall acceptance (product of quantiles) above a few percent: the sampler retries for ever by design
                kw = {'quantiles': [float(rng.choice([0.5, 0.7]))] * rounds if rounds > 2 else [float(rng.choice([0.3, 0.5, 0.7]))] * rounds}
                spec['disc']['flavour'] = 'cont'
        case = {'spec': spec, 'sampler': sampler, 'bs': bs, 'n': n, 'kw': kw, 'seed': seed, 'bar': bool(rng.random() < 0.4)}
        if sampler in ('rej', 'smc') and rng.random() < 0.35:
            # an output pool that stores the simulator and/or things computed from it (each run gets its own fresh pool)
            cand = ['S'] + [s_['name'] for s_ in spec['summaries']] + ['d']
            case['pool'] = [str(x) for x in rng.choice(cand, size=int(rng.integers(1, len(cand) + 1)), replace=False)]
        if sampler == 'smc' and rng.random() < 0.3:
            case['cont'] = {'thresholds': [q(0.1)]} if 'thresholds' in kw else {'quantiles': [0.5]}
        case['schedules'] = [{'seed': int(rng.integers(0, 2 ** 31 - 1)), 'cores': int(rng.integers(1, 9)),
                              'regime': str(rng.choice(REGIMES)), 'mpb': int(rng.integers(1, 9))} for _ in range(3)]
        if made % ctx.cfg['mp_every'] == 0:
            case['mp'] = {'procs': int(rng.integers(2, 5)), 'mpb': int(rng.integers(2, 7)),
                          'delays': [float(x) for x in rng.choice([0.0, 0.002, 0.01, 0.03], size=5)]}
        made += 1
        yield case


def _run(client, case, mpb, delays=None):
    import elfi
    import elfi.client
    elfi.client.set_client(client)
    m = models.build(case['spec'], sim_meta=bool(delays), delays=delays)
    hist = []
    pkw = {'pool': elfi.OutputPool(list(case['pool']))} if case.get('pool') else {}
    if case['sampler'] == 'rej':
        smp = elfi.Rejection(m['d'], batch_size=case['bs'], seed=case['seed'], max_parallel_batches=mpb, **pkw)
    elif case['sampler'] == 'adsmc':
        m['d'].become(elfi.AdaptiveDistance(*[m[s_['name']] for s_ in case['spec']['summaries']], model=m))
        smp = elfi.AdaptiveDistanceSMC(m['d'], batch_size=case['bs'], seed=case['seed'], max_parallel_batches=mpb)
    else:
        smp = elfi.SMC(m['d'], batch_size=case['bs'], seed=case['seed'], max_parallel_batches=mpb, **pkw)
    upd = smp.update

    def recording_update(batch, batch_index):
        hist.append(batch_index)
        return upd(batch, batch_index)

    smp.update = recording_update
    r = smp.sample(case['n'], bar=bool(case.get('bar')), **case['kw'])
    results = [_fields(case, r)]
    if case.get('cont'):
        r2 = smp.sample(case['n'], bar=bool(case.get('bar')), **case['cont'])
        results.append(_fields(case, r2))
    return results, hist


def _fields(case, r):
    if case['sampler'] == 'rej':
        return {'outputs': r.outputs, 'threshold': r.threshold, 'n_sim': r.n_sim, 'n_batches': r.n_batches}
    return {'pop_outputs': [p.outputs for p in r.populations], 'pop_weights': [p.weights for p in r.populations],
            'pop_threshold': [p.threshold for p in r.populations], 'pop_n_sim': [p.n_sim for p in r.populations],
            'pop_cov': [p.cov for p in r.populations],
            'n_sim': r.n_sim, 'n_batches': r.n_batches, 'threshold': r.threshold, 'outputs': r.outputs, 'weights': r.weights}


def _eq(a, b, path=''):
    if isinstance(a, dict):
        if a.keys() != b.keys():
            return path + ' keys %s vs %s' % (sorted(a), sorted(b))
        for k in a:
            r = _eq(a[k], b[k], path + '/' + str(k))
            if r:
                return r
        return None
    if isinstance(a, (list, tuple)):
        if len(a) != len(b):
            return path + ' length %d vs %d' % (len(a), len(b))
        for i, (x, y) in enumerate(zip(a, b)):
            r = _eq(x, y, path + '[%d]' % i)
            if r:
                return r
        return None
    a, b = np.asarray(a), np.asarray(b)
    if a.shape != b.shape or a.dtype != b.dtype or a.tobytes() != b.tobytes():
        if a.shape == b.shape and np.array_equal(a, b, equal_nan=True):
            return None
        return path + ' differs: %s vs %s' % (np.ravel(a)[:4], np.ravel(b)[:4])
    return None


def _check_hist(hist, where):
    if hist != list(range(len(hist))):
        raise Violation('consumed-indices', 'batches consumed by update() are not 0,1,2,... each once (%s): %s' % (where, hist[:40]))


def run_case(ctx, case):
    import elfi.client
    import elfi.clients.native as nat
    ctx.event('sampler_' + case['sampler'])
    ctx.event('cases_with_progress_bar', bool(case.get('bar')))
    ctx.event('cases_with_output_pool', bool(case.get('pool')))
    try:
        ref, hist = _run(nat.Client(), case, 1)
        _check_hist(hist, 'sequential')
        nontrivial = False
        for sch in case['schedules']:
            c = ScheduledClient(sch['seed'], sch['cores'], sch['regime'], sch['mpb'])
            out, hist = _run(c, case, sch['mpb'])
            ctx.event('scheduled_runs')
            ctx.event('updates_checked', len(hist))
            _check_hist(hist, 'regime=%s mpb=%d' % (sch['regime'], sch['mpb']))
            if c.tasks:
                raise Violation('tasks-left-in-client', '%d submitted tasks left in the client when inference returned (regime=%s mpb=%d)' % (
                    len(c.tasks), sch['regime'], sch['mpb']), {'events_tail': c.ev[-12:]})
            d = _eq(ref, out)
            if d:
                raise Violation('result-differs-from-sequential', 'regime=%s mpb=%d cores=%d: %s' % (sch['regime'], sch['mpb'], sch['cores'], d),
                                {'schedule': sch})
            st = c.stats()
            ctx.distinct('interleaving', repr(c.interleaving()))
            ctx.event('runs_with_cancellation', bool(st['cancelled']))
            ctx.event('runs_with_out_of_order_exec', bool(st['out_of_order_exec']))
            ctx.event('runs_with_not_ready', bool(st['not_ready_answers']))
            ctx.event('cancelled_tasks', st['cancelled'])
            ctx.event('tasks_executed', st['executed'])
            ctx.event('max_outstanding_seen_%d' % min(st['max_outstanding'], 8))
            if st['cancelled'] or st['out_of_order_exec'] or st['not_ready_answers']:
                nontrivial = True
        if 'mp' in case:
            import elfi.clients.multiprocessing as mpc
            nat.set_as_default()
            inner = mpc.Client(num_processes=case['mp']['procs'])
            try:
                c = RecordingClient(inner, case['mp']['mpb'])
                out, hist = _run(c, case, case['mp']['mpb'], delays=case['mp']['delays'])
            finally:
                inner.pool.terminate()
                inner.pool.join()
            ctx.event('mp_runs')
            _check_hist(hist, 'multiprocessing')
            if c.live:
                raise Violation('tasks-left-in-client', '%d tasks left in the multiprocessing client at return' % len(c.live))
            # delays make the simulator use `meta`; the reference must be the same model family member without delays
            d = _eq(ref, out)
            if d:
                raise Violation('result-differs-from-sequential', 'multiprocessing client procs=%d mpb=%d: %s' % (case['mp']['procs'], case['mp']['mpb'], d))
            ctx.event('mp_not_ready_answers', sum(1 for e in c.ev if e[0] == 'r' and not e[2]))
            ctx.event('mp_cancelled', len(c.removed))
        ctx.nontrivial(nontrivial)
    finally:
        elfi.client.set_client(nat.Client())
