"""C20 - BSL: synthetic likelihoods and the Metropolis-Hastings step are the stated ones.

Three kinds of cases (DESIGN.md section 5 / C20):

* 'lik': reference-model monitor on the real likelihood functions (standard with optional
  whitening / Warton shrinkage, Ghurye-Olkin, mean / variance adjusted) against scipy's
  multivariate normal on the harness's own sample moments and against independent
  transcriptions of the published formulas;
* 'tf': back-transform o transform = identity on two-sided / one-sided / unbounded bounds;
* 'mh': full BSL.sample runs with a recording generator, recording likelihood wrapper and
  recording simulator; an offline oracle replays the chain: every transition must be
  accepted iff u < min(1, exp(delta log posterior) * J(prop)/J(curr)) with J obtained by
  numerical differentiation of elfi's own back-transform, the value returned by
  BSL._get_mh_ratio must be that ratio, zero-prior proposals must not reach the simulator
  and must repeat the current state.  Every likelihood value observed inside a run is also
  checked against the reference.
"""
import functools
import math

import numpy as np
import scipy.stats as ss
from scipy.special import gammaln

from vmon.core import Skip, Violation

PROPERTY = 'C20'
LEVEL = 'exploration'
TECHNIQUE = ('runtime monitoring: reference-model monitor on the BSL likelihood functions and transform helpers + history '
             'monitor (recording generator / likelihood / simulator / _get_mh_ratio) with an offline Metropolis-Hastings '
             'replay oracle over full BSL.sample runs')
LEVEL_TEXT = ('Held on every generated execution: likelihood values are recomputed from the definition, and every transition of '
              'every generated BSL chain is decided again by an independent replay (change-of-variables ratio with a numerically '
              'differentiated Jacobian). Exploration over summary matrices, bound types, priors, likelihood variants and chains; '
              'the statement quantifies over inputs and chain states, which only sampling reaches.')
LEVEL_NOTE = ('trusts: scipy multivariate_normal / numpy cov and slogdet, the harness transcription of the Ghurye-Olkin estimator '
              '(validated by Monte Carlo in the pre-study), compat layer (BslPrior .item(), squeeze wrapper around likelihoods)')
RULE = ('cases: mh = random model (1-3 priors uniform/norm/expon/hierarchical norm, linear-Gaussian simulator, 1-3 scalar or '
        'vector summaries) x likelihood variant (standard | warton | whitening | whitening+warton | Ghurye-Olkin | mean / '
        'variance adjusted) x bound types per parameter (two-sided, upper, lower, unbounded, or no transform) x proposal '
        'covariance x n_sim_round x batch_size x burn_in x parameter order; lik = random summary matrices (d 1-5, n d+5..120) '
        'x observed vectors near and far x all variants; tf = random bounds x points; distinct = hash of the case; '
        'non-trivial = mh run with >= 1 accepted and >= 1 rejected transition under a non-identity transform')
ASSUMPTIONS = ['whitening and the adjusted likelihoods are driven with >= 2 summaries only (with one summary the unchanged tree '
               'raises inside matmul / np.diag: outside the domain on which the tree returns)',
               'Warton shrinkage: the reference accepts the textbook estimator with and without elfi\'s 1e-5 diagonal guard',
               'glasso shrinkage and the semi-parametric likelihood are not driven (no closed-form reference)',
               'Ghurye-Olkin is driven with n >= d + 5 simulations; where M - (y-mu)(y-mu)^T/(1-1/n) is not positive definite the '
               'published estimator is zero, so the reference demands -inf there (violation key ghurye-olkin-indefinite-psi, reported '
               'without aborting the case); a smallest eigenvalue within 1e-9 (relative) of zero is left undecided',
               'a transition whose uniform draw is within 1e-6 (relative) of the acceptance ratio, or whose numerical Jacobian '
               'is not converged, may go either way (counted as ambiguous)',
               'adjusted likelihoods: the current state\'s log posterior is re-evaluated at the freshly sampled gamma from the '
               'simulations of the current state (that is the posterior ratio at the current gamma)',
               'the recording generator replaces BSL.random_state (same seed, same stream); proposals are read from its '
               'multivariate_normal calls']
CONFIG = {
    'quick': {'shards': 16, 'cases': 40, 'timeout': 600, 'floor': 128},
    'thorough': {'shards': 32, 'cases': 1400, 'timeout': 5400, 'floor': 8960},
}
REQUIRED = ['mh_runs_under_scheduled_client', 'lik_glasso_checked', 'lik_glasso_std_checked', 'mh_runs_after_an_earlier_call_in_another_order', 'lik_std_checked', 'lik_whiten_checked', 'lik_warton_checked', 'lik_whiten_warton_checked', 'lik_go_checked',
            'lik_go_indefinite_checked', 'lik_mean_checked', 'lik_variance_checked', 'lik_checked_inside_runs',
            'tf_roundtrip_type0', 'tf_roundtrip_type1', 'tf_roundtrip_type2', 'tf_roundtrip_type3',
            'mh_transitions_checked', 'mh_ratio_values_checked', 'mh_accepted', 'mh_rejected', 'mh_zero_prior_proposals',
            'mh_runs_transformed', 'mh_runs_untransformed', 'mh_bound_type0', 'mh_bound_type1', 'mh_bound_type2',
            'mh_bound_type3', 'mh_runs_misspec', 'mh_runs_go', 'mh_runs_whitening', 'sim_calls_observed']

VARIANTS = ['std', 'warton', 'whiten', 'whiten_warton', 'go', 'mean', 'variance']

# ---------------------------------------------------------------------------------------
# event log of the run in progress (single-threaded worker)
LOG = []


def lik_wrapper(fn, ssx, ssy, **kw):
    """compat section 3: BSL stores the likelihood into a scalar slot; pass the contained scalar on.
    Also records what the real likelihood was called with and what it returned."""
    v = fn(ssx, ssy, **kw)
    f = float(np.squeeze(v))
    LOG.append(('lik', np.array(ssx, dtype=float, copy=True), np.array(ssy, dtype=float, copy=True),
                None if kw.get('gamma') is None else np.array(kw['gamma'], dtype=float, copy=True), f))
    return f


class RecRS(np.random.RandomState):
    def uniform(self, *a, **k):
        v = super().uniform(*a, **k)
        if not a and not k:            # the MH acceptance draw; the slice sampler calls uniform(lower, upper)
            LOG.append(('u', float(v)))
        return v

    def multivariate_normal(self, mean, cov, *a, **k):
        v = super().multivariate_normal(mean, cov, *a, **k)
        LOG.append(('mvn', np.array(mean, dtype=float, copy=True), np.array(cov, dtype=float, copy=True),
                    np.array(v, dtype=float, copy=True)))
        return v


def sim_op(*theta, batch_size=1, random_state=None, coefs=None, noise=1.0, width=3):
    th = np.column_stack([np.broadcast_to(np.asarray(t, dtype=float).reshape(-1), (batch_size,)) for t in theta])
    LOG.append(('sim', th.copy()))
    A = np.asarray(coefs, dtype=float)            # (npar, width)
    return th @ A + noise * random_state.randn(batch_size, width)


def summ_cols(x, cols=(0,)):
    out = x[:, list(cols)]
    return out[:, 0] if len(cols) == 1 else out


def summ_mean(x):
    return x.mean(axis=1)


# ---------------------------------------------------------------------------------------
# references
def logc(k, v):
    """log c(k, v) of Ghurye & Olkin (1969)."""
    return -k * v / 2 * math.log(2) - k * (k - 1) / 4 * math.log(math.pi) - sum(gammaln(0.5 * (v - i + 1)) for i in range(1, k + 1))


def ref_moments(ssx):
    return ssx.mean(0), np.atleast_2d(np.cov(ssx, rowvar=False))


def ref_std(ssx, ssy, W=None, penalty=None, eps=0.0):
    y = np.asarray(ssy, dtype=float).ravel()
    if W is not None:
        y = W @ y
        ssx = ssx @ W.T
    mu, S = ref_moments(ssx)
    if penalty is not None:
        g = 1.0 - penalty
        S = g * S + (1.0 - g) * np.diag(np.diag(S) + eps)     # D^1/2 (g R + (1-g) I) D^1/2
    return float(ss.multivariate_normal.logpdf(y, mu, S))


def ref_glasso(ssx, ssy, penalty, standardise):
    """Graphical-lasso shrinkage (sklearn, a library elfi and the reference both trust): the shrunk covariance is the
    graphical lasso of the sample covariance, or - standardised - of the sample correlation put back on the scale of the
    summaries. The matrix handed to sklearn is prepared with the same numpy expressions as in elfi so that the iterative
    solver sees bit-identical input."""
    from sklearn.covariance import graphical_lasso
    y = np.asarray(ssy, dtype=float).ravel()
    mu = ssx.mean(0)
    S = np.atleast_2d(np.cov(ssx, rowvar=False))
    if standardise:
        sd = np.sqrt(np.diag(S))
        R = np.atleast_2d(np.cov((ssx - mu) / sd, rowvar=False))
        S = np.outer(sd, sd) * graphical_lasso(R, alpha=penalty, max_iter=200)[0]
    else:
        S = graphical_lasso(S, alpha=penalty, max_iter=200)[0]
    return float(ss.multivariate_normal.logpdf(y, mu, S))


def ref_go(ssx, ssy):
    """Price et al. (2018) eq. for the unbiased estimator; (value, psi positive definite?)."""
    n, d = ssx.shape
    y = np.asarray(ssy, dtype=float).ravel()
    mu, S = ref_moments(ssx)
    M = (n - 1) * S
    df = (y - mu).reshape(-1, 1)
    psi = M - df @ df.T / (1 - 1 / n)
    sgn, ld = np.linalg.slogdet(psi)
    ev = np.linalg.eigvalsh((psi + psi.T) / 2)
    scale = np.abs(ev).max()
    if ev.min() <= 1e-9 * scale:
        if ev.min() < -1e-9 * scale:
            return -np.inf, False
        return None, None                                         # numerically on the edge: undecided
    val = (-d / 2 * math.log(2 * math.pi) + logc(d, n - 2) - logc(d, n - 1) - d / 2 * math.log(1 - 1 / n)
           - (n - d - 2) / 2 * np.linalg.slogdet(M)[1] + (n - d - 3) / 2 * ld)
    return float(val), True


def ref_misspec(ssx, ssy, gamma, adjustment):
    y = np.asarray(ssy, dtype=float).ravel()
    mu, S = ref_moments(ssx)
    sd = np.sqrt(np.diag(S))
    if adjustment == 'mean':
        return float(ss.multivariate_normal.logpdf(y, mu + sd * gamma, S))
    return float(ss.multivariate_normal.logpdf(y, mu, S + np.diag((sd * gamma) ** 2)))


def _same(got, ref, rtol=1e-9, atol=1e-8):
    if np.isnan(got) or np.isnan(ref):
        return False
    if got == ref:
        return True
    return abs(got - ref) <= atol + rtol * abs(ref)


def make_W(d, seed):
    """A well-conditioned whitening-like matrix, deliberately neither symmetric nor exactly triangular."""
    rs = np.random.RandomState(seed)
    while True:
        W = np.linalg.inv(np.linalg.cholesky(np.cov(rs.randn(4 * d + 4, d) @ (rs.randn(d, d) + 1.5 * np.eye(d)), rowvar=False)
                                             + 0.1 * np.eye(d))) + 0.05 * rs.randn(d, d)
        if np.linalg.cond(W) < 50:
            return W


def check_lik(ctx, variant, ssx, ssy, got, W=None, penalty=None, gamma=None, where='direct', once=None):
    """Compare one observed likelihood value with its reference. Raises Violation."""
    n, d = ssx.shape
    wit = {'variant': variant, 'where': where, 'n': n, 'd': d, 'ssy': np.asarray(ssy).ravel(), 'elfi': got,
           'penalty': penalty, 'gamma': gamma, 'ssx_head': ssx[:3]}
    if variant != 'go':
        # the statement is about non-singular covariances: skip (and count) what scipy itself refuses
        try:
            ref_std(ssx, ssy, W=W)
        except np.linalg.LinAlgError:
            ctx.event('lik_singular_covariance_skipped')
            return
    if variant in ('std', 'whiten'):
        ref = ref_std(ssx, ssy, W=W)
        ok = _same(got, ref)
    elif variant in ('warton', 'whiten_warton'):
        ref = ref_std(ssx, ssy, W=W, penalty=penalty, eps=1e-5)
        ok = _same(got, ref) or _same(got, ref_std(ssx, ssy, W=W, penalty=penalty, eps=0.0))
    elif variant in ('glasso', 'glasso_std'):
        try:
            ref = ref_glasso(ssx, ssy, penalty, variant == 'glasso_std')
        except (FloatingPointError, np.linalg.LinAlgError, ValueError):
            ctx.event('lik_glasso_solver_failed_skipped')
            return
        ok = _same(got, ref, rtol=1e-7)
    elif variant == 'go':
        ref, pd = ref_go(ssx, ssy)
        if ref is None:
            ctx.event('lik_go_edge_undecided')
            return
        if not pd:
            ctx.event('lik_go_indefinite_checked')
            if not (got == -np.inf):
                # reported without aborting the case, so that the remaining checks of the case (the whole
                # Metropolis-Hastings replay of a run) are still made; at most once per case
                wit['ref'] = ref
                if once is None or not once.get('go_indef'):
                    ctx.violation('ghurye-olkin-indefinite-psi',
                                  'Ghurye-Olkin log-likelihood is %r where the published estimator is zero (log = -inf): '
                                  'M - (y-mu)(y-mu)^T/(1-1/n) is not positive definite (observed summaries far from the '
                                  'simulated ones); d=%d n=%d' % (got, d, n), wit)
                if once is not None:
                    once['go_indef'] = True
            return
        # log-determinants of S and (n-1)S agree only up to rounding amplified by the condition number
        ok = _same(got, ref, atol=1e-8 + 1e-12 * n * np.linalg.cond(ref_moments(ssx)[1]))
    else:
        ref = ref_misspec(ssx, ssy, gamma, variant)
        ok = _same(got, ref)
    if not ok:
        wit['ref'] = ref
        raise Violation('lik-' + variant, '%s synthetic log-likelihood is %r, the definition gives %r (d=%d, n=%d, %s)' % (
            variant, got, ref, d, n, where), wit)
    ctx.event('lik_%s_checked' % variant)
    if where != 'direct':
        ctx.event('lik_checked_inside_runs')


# ---------------------------------------------------------------------------------------
# generation
def gen_mh(rng):
    k = int(rng.choice([1, 2, 2, 3]))
    base = ['t%d' % i for i in range(k)]
    names = [base[i] for i in rng.permutation(k)]
    params = []
    for i in range(k):
        if params and rng.random() < 0.25:
            params.append({'name': names[i], 'dist': 'norm', 'args': [{'ref': params[int(rng.integers(len(params)))]['name']},
                                                                       round(float(rng.uniform(0.5, 1.5)), 3)]})
            continue
        dist = str(rng.choice(['uniform', 'uniform', 'norm', 'expon']))
        if dist == 'uniform':
            args = [round(float(rng.uniform(-1.5, 0.5)), 3), round(float(rng.uniform(1.5, 3.5)), 3)]
        elif dist == 'norm':
            args = [round(float(rng.uniform(-1, 1)), 3), round(float(rng.uniform(0.7, 2.0)), 3)]
        else:
            args = [round(float(rng.uniform(-1.0, 0.5)), 3), round(float(rng.uniform(0.8, 2.0)), 3)]
        params.append({'name': names[i], 'dist': dist, 'args': args})
    width = int(rng.choice([2, 3, 4]))
    # summaries: scalar columns, vector slices, row mean
    summaries = []
    ns = int(rng.integers(1, 4))
    for j in range(ns):
        kind = str(rng.choice(['col', 'col', 'cols', 'mean']))
        if kind == 'col':
            summaries.append({'name': 'S%d' % j, 'kind': 'cols', 'cols': [int(rng.integers(width))]})
        elif kind == 'cols':
            c = sorted(int(x) for x in rng.choice(width, size=2, replace=False))
            summaries.append({'name': 'S%d' % j, 'kind': 'cols', 'cols': c})
        else:
            summaries.append({'name': 'S%d' % j, 'kind': 'mean'})
    # duplicated information makes the covariance singular: keep each column at most once, mean at most once
    seen, keep = set(), []
    for s in summaries:
        cols = [c for c in s.get('cols', []) if ('c', c) not in seen]
        if s['kind'] == 'mean':
            if 'm' in seen:
                continue
            seen.add('m')
            keep.append(s)
        elif cols:
            for c in cols:
                seen.add(('c', c))
            keep.append(dict(s, cols=cols))
    # mean + all columns is singular: drop the mean then
    if 'm' in seen and sum(1 for x in seen if x != 'm') >= width:
        keep = [s for s in keep if s['kind'] != 'mean']
    summaries = keep
    d = sum(len(s['cols']) if s['kind'] == 'cols' else 1 for s in summaries)
    variants = ['std', 'std', 'warton', 'go', 'go'] + (['whiten', 'whiten_warton', 'mean', 'variance'] if d >= 2 else [])
    variant = str(rng.choice(variants))
    nsr = int(rng.choice([20, 30, 48]))
    bs = int(rng.choice([nsr, nsr, nsr // 2, nsr // 4 if nsr % 4 == 0 else nsr]))
    # bounds
    use_tf = rng.random() < 0.85
    bounds = []
    for p in params:
        t = int(rng.choice([0, 0, 1, 2, 3]))
        if p['dist'] == 'uniform':
            lo, hi = p['args'][0], p['args'][0] + p['args'][1]
        elif p['dist'] == 'expon':
            lo, hi = p['args'][0], p['args'][0] + 4 * p['args'][1]
        else:
            lo, hi = -3.0, 3.0
        # bounds at or beyond the prior support (beyond => proposals with zero prior density occur)
        pad_lo = float(rng.choice([0.0, 0.0, 0.4, 1.0]))
        pad_hi = float(rng.choice([0.0, 0.0, 0.4, 1.0]))
        a = round(lo - pad_lo, 3) if t in (0, 2) else None
        b = round(hi + pad_hi, 3) if t in (0, 1) else None
        bounds.append([a, b])
    return {'kind': 'mh', 'params': params, 'width': width, 'summaries': summaries, 'variant': variant,
            'penalty': round(float(rng.uniform(0.05, 0.95)), 3), 'wseed': int(rng.integers(0, 2 ** 31 - 1)),
            'coef_seed': int(rng.integers(0, 2 ** 31 - 1)), 'noise': float(rng.choice([0.5, 1.0, 2.0])),
            'n_sim_round': nsr, 'batch_size': bs, 'n_samples': int(rng.choice([25, 35, 45])),
            'burn_in': int(rng.choice([0, 0, 5])), 'bounds': bounds if use_tf else None,
            'sigma_scale': float(rng.choice([0.3, 0.6, 1.0, 1.6])), 'sigma_corr': bool(rng.random() < 0.4),
            'perm_names': bool(rng.random() < 0.4), 'features_given': bool(rng.random() < 0.5),
            'seed': int(rng.integers(0, 2 ** 31 - 1)), 'tau': float(rng.choice([0.5, 1.0])), 'w': float(rng.choice([0.5, 1.0]))}


def gen_cases(ctx):
    rng = ctx.rng
    for j in range(ctx.ncases):
        r = j % 4
        if r in (0, 1):
            yield gen_mh(rng)
        elif r == 2:
            yield {'kind': 'lik', 'seed': int(rng.integers(0, 2 ** 31 - 1)), 'reps': 6}
        else:
            yield {'kind': 'tf', 'seed': int(rng.integers(0, 2 ** 31 - 1)), 'reps': 25}


# ---------------------------------------------------------------------------------------
def run_lik(ctx, case):
    from elfi.methods.bsl import pdf_methods as pm
    rs = np.random.RandomState(case['seed'])
    once = {}
    for rep in range(case['reps']):
        d = int(rs.randint(1, 6))
        n = int(rs.randint(d + 5, 121))
        while True:                                   # well-conditioned mixing: the statement is about non-singular covariances
            A = rs.randn(d, d) + 2 * np.eye(d)
            if np.linalg.cond(A) < 30:
                break
        ssx = rs.randn(n, d) @ A + rs.randn(d) * 3
        mu = ssx.mean(0)
        sd = ssx.std(0)
        for far in (0.1, 1.0, 3.0, 12.0, 100.0):
            ssy = mu + sd * rs.randn(d) * far
            shaped = ssy.reshape(1, -1) if rs.rand() < 0.5 else ssy.copy()
            check_lik(ctx, 'std', ssx, ssy, float(np.squeeze(pm.gaussian_syn_likelihood(ssx.copy(), shaped))))
            pen = float(rs.uniform(0, 1))
            check_lik(ctx, 'warton', ssx, ssy, float(np.squeeze(pm.gaussian_syn_likelihood(ssx.copy(), shaped, shrinkage='warton', penalty=pen))),
                      penalty=pen)
            check_lik(ctx, 'go', ssx, ssy, float(np.squeeze(pm.gaussian_syn_likelihood_ghurye_olkin(ssx.copy(), shaped))), once=once)
            if d >= 2:
                W = make_W(d, int(rs.randint(0, 2 ** 31 - 1)))
                check_lik(ctx, 'whiten', ssx, ssy, float(np.squeeze(pm.gaussian_syn_likelihood(ssx.copy(), shaped, whitening=W))), W=W)
                check_lik(ctx, 'whiten_warton', ssx, ssy,
                          float(np.squeeze(pm.gaussian_syn_likelihood(ssx.copy(), shaped, whitening=W, shrinkage='warton', penalty=pen))),
                          W=W, penalty=pen)
                if far <= 3.0:
                    import warnings
                    pg = float(rs.uniform(0.02, 0.3))
                    for std_ in (False, True):
                        with warnings.catch_warnings():
                            warnings.simplefilter('ignore')
                            try:
                                got = float(np.squeeze(pm.gaussian_syn_likelihood(ssx.copy(), shaped, shrinkage='glasso', penalty=pg, standardise=std_)))
                            except FloatingPointError:
                                ctx.event('lik_glasso_solver_failed_skipped')
                                continue
                            check_lik(ctx, 'glasso_std' if std_ else 'glasso', ssx, ssy, got, penalty=pg)
                gam = rs.randn(d) * 0.7
                check_lik(ctx, 'mean', ssx, ssy, float(np.squeeze(pm.syn_likelihood_misspec(ssx.copy(), shaped, gam, 'mean'))), gamma=gam)
                gam = np.abs(gam)
                check_lik(ctx, 'variance', ssx, ssy, float(np.squeeze(pm.syn_likelihood_misspec(ssx.copy(), shaped, gam, 'variance'))), gamma=gam)
            # factory forms must be the same functions with the same settings
        f = pm.standard_likelihood(shrinkage='warton', penalty=0.3)
        check_lik(ctx, 'warton', ssx, mu, float(np.squeeze(f(ssx.copy(), mu.copy()))), penalty=0.3)
        check_lik(ctx, 'go', ssx, mu, float(np.squeeze(pm.unbiased_likelihood()(ssx.copy(), mu.copy()))))
        if d >= 2:
            g = np.full(d, 0.4)
            check_lik(ctx, 'mean', ssx, mu, float(np.squeeze(pm.robust_likelihood('mean')(ssx.copy(), mu.copy(), gamma=g))), gamma=g)


def gen_bounds_point(rs, p):
    bound, th, types = [], [], []
    for i in range(p):
        t = int(rs.randint(4))
        a = float(rs.uniform(-3, 1) * rs.choice([1.0, 1.0, 100.0]))
        b = a + float(rs.uniform(0.5, 4) * rs.choice([1.0, 1.0, 50.0]))
        gap = float(10.0 ** rs.uniform(-6, 0))
        if t == 0:
            bound.append((a, b))
            th.append(a + (b - a) * (gap if rs.rand() < 0.3 else (1 - gap if rs.rand() < 0.4 else rs.uniform(0.02, 0.98))))
        elif t == 1:
            bound.append((-np.inf, b))
            th.append(b - float(10.0 ** rs.uniform(-6, 3)))
        elif t == 2:
            bound.append((a, np.inf))
            th.append(a + float(10.0 ** rs.uniform(-6, 3)))
        else:
            bound.append((-np.inf, np.inf))
            th.append(float(rs.randn() * 10.0 ** rs.uniform(-2, 3)))
        types.append(t)
    return np.array(bound, dtype=float), np.array(th, dtype=float), types


def run_tf(ctx, case):
    from elfi.methods.inference.bsl import BSL
    rs = np.random.RandomState(case['seed'])
    for rep in range(case['reps']):
        p = int(rs.randint(1, 5))
        bound, th, types = gen_bounds_point(rs, p)
        # strictly inside after rounding?
        if any((np.isfinite(bound[i, 0]) and not th[i] > bound[i, 0]) or (np.isfinite(bound[i, 1]) and not th[i] < bound[i, 1])
               for i in range(p)):
            ctx.event('tf_point_not_interior')
            continue
        arg = th.copy() if rs.rand() < 0.7 else th.reshape(1, -1).copy()
        tt = np.ravel(np.asarray(BSL._para_logit_transform(arg, bound), dtype=float))
        if tt.size != p or not np.all(np.isfinite(tt)):
            raise Violation('transform-value', 'transform of an interior point returned %r' % (tt,), {'bound': bound, 'theta': th})
        back = np.ravel(np.asarray(BSL._para_logit_back_transform(tt.copy(), bound), dtype=float))
        if back.size != p:
            raise Violation('transform-value', 'back-transform of %d values returned %r' % (p, back), {'bound': bound, 'theta': th})
        for i in range(p):
            sc = 1.0 + abs(th[i]) + sum(abs(x) for x in bound[i] if np.isfinite(x))
            if not abs(back[i] - th[i]) <= 1e-12 * sc:
                raise Violation('transform-roundtrip', 'back-transform(transform(theta)) = %r for theta = %r (bound %s, type %d)' % (
                    back[i], th[i], bound[i].tolist(), types[i]), {'bound': bound, 'theta': th, 'transformed': tt, 'back': back})
            ctx.event('tf_roundtrip_type%d' % types[i])


# ---------------------------------------------------------------------------------------
def build_model(case):
    import elfi
    m = elfi.ElfiModel(name='c20')
    made = {}
    for p in case['params']:
        args = [made[a['ref']] if isinstance(a, dict) else a for a in p['args']]
        made[p['name']] = elfi.Prior(p['dist'], *args, model=m, name=p['name'])
    k = len(case['params'])
    rs = np.random.RandomState(case['coef_seed'])
    coefs = rs.choice([-1.0, 0.5, 1.0, 2.0], size=(k, case['width'])) + 0.1 * rs.randn(k, case['width'])
    truth = prior_draw(case, rs)
    obs = truth @ coefs + case['noise'] * rs.randn(1, case['width'])
    S = elfi.Simulator(functools.partial(sim_op, coefs=coefs.tolist(), noise=case['noise'], width=case['width']),
                       *[made[p['name']] for p in case['params']], model=m, name='SIM', observed=obs)
    for s in case['summaries']:
        if s['kind'] == 'cols':
            elfi.Summary(functools.partial(summ_cols, cols=tuple(s['cols'])), S, model=m, name=s['name'])
        else:
            elfi.Summary(summ_mean, S, model=m, name=s['name'])
    return m, truth


def prior_draw(case, rs):
    """One draw from the prior by ancestral sampling with scipy (harness side); columns in creation order."""
    val = {}
    for p in case['params']:
        args = [val[a['ref']] if isinstance(a, dict) else a for a in p['args']]
        val[p['name']] = float(getattr(ss, p['dist']).rvs(*args, random_state=rs))
    return np.array([[val[p['name']] for p in case['params']]])


def ref_logprior(case, order, theta):
    col = {n: float(theta[i]) for i, n in enumerate(order)}
    tot = 0.0
    with np.errstate(all='ignore'):
        for p in case['params']:
            args = [col[a['ref']] if isinstance(a, dict) else a for a in p['args']]
            tot = tot + float(getattr(ss, p['dist']).logpdf(col[p['name']], *args))
    return tot


def num_logJ(BSL, theta, bound):
    """log |d theta / d theta_tilde| by Richardson differences of elfi's own back-transform at
    the transformed point; returns (value, converged?)."""
    tt = np.asarray(BSL._para_logit_transform(np.array(theta, dtype=float), bound), dtype=float)
    p = len(tt)
    out = []
    for h in (1e-3, 2e-3):
        s = 0.0
        for i in range(p):
            e = np.zeros(p)
            e[i] = h
            f = [BSL._para_logit_back_transform(tt + c * e, bound)[i] for c in (2, 1, -1, -2)]
            dv = (-f[0] + 8 * f[1] - 8 * f[2] + f[3]) / (12 * h)
            if not dv > 0:
                return np.nan, False
            s += math.log(dv)
        out.append(s)
    return out[0], abs(out[0] - out[1]) <= 1e-7


def run_mh(ctx, case):
    import elfi
    from elfi.methods.bsl import pdf_methods as pm
    from elfi.methods.inference.bsl import BSL
    m, truth = build_model(case)
    k = len(case['params'])
    created = [p['name'] for p in case['params']]
    order = sorted(created)
    rs = np.random.RandomState(case['seed'])
    if case['perm_names']:
        order = [order[i] for i in rs.permutation(k)]
    feats = [s['name'] for s in case['summaries']]
    d = sum(len(s['cols']) if s['kind'] == 'cols' else 1 for s in case['summaries'])
    variant = case['variant']
    W = make_W(d, case['wseed']) if variant in ('whiten', 'whiten_warton') else None
    pen = case['penalty'] if variant in ('warton', 'whiten_warton') else None
    if variant in ('std', 'warton', 'whiten', 'whiten_warton'):
        kw = {}
        if W is not None:
            kw['whitening'] = W
        if pen is not None:
            kw.update(shrinkage='warton', penalty=pen)
        lik = functools.partial(lik_wrapper, pm.gaussian_syn_likelihood, **kw)
    elif variant == 'go':
        lik = functools.partial(lik_wrapper, pm.gaussian_syn_likelihood_ghurye_olkin)
    else:
        lik = functools.partial(lik_wrapper, pm.syn_likelihood_misspec, adjustment=variant)
    misspec = variant in ('mean', 'variance')

    # bounds / start / proposal covariance in the requested parameter order
    pos = {n: i for i, n in enumerate(created)}
    bound = None
    if case['bounds'] is not None:
        bound = np.array([[-np.inf if case['bounds'][pos[n]][0] is None else case['bounds'][pos[n]][0],
                           np.inf if case['bounds'][pos[n]][1] is None else case['bounds'][pos[n]][1]] for n in order], dtype=float)
    # start: a prior draw (harness side) strictly inside the bounds
    p0 = None
    for attempt in range(200):
        cand = prior_draw(case, rs)[0]
        if attempt < 20 and case['seed'] % 10 < 7:       # mostly: near the parameters that generated the observation
            cand = truth[0] + 0.2 * rs.randn(k)
        cand = np.array([cand[pos[n]] for n in order])
        inside = bound is None or all(bound[i, 0] + 1e-3 < cand[i] < bound[i, 1] - 1e-3 for i in range(k))
        if inside and np.isfinite(ref_logprior(case, order, cand)):
            p0 = cand
            break
    if p0 is None:
        raise Skip('no interior start point')
    sd = case['sigma_scale'] * (0.5 + rs.rand(k))
    C = np.eye(k)
    if case['sigma_corr'] and k > 1:
        A = rs.randn(k, k)
        C = A @ A.T + k * np.eye(k)
        C = C / np.sqrt(np.outer(np.diag(C), np.diag(C)))
    Sigma = np.outer(sd, sd) * C

    del LOG[:]
    ckw = {}
    if case['batch_size'] < case['n_sim_round'] and case['seed'] % 2 == 0:
        # several batches per round under a schedule-controlled client with more than one slot: batches of the next round
        # must not be simulated (at the old parameters) before the current round has been processed - check_sims sees them
        from vmon.clients import REGIMES, ScheduledClient
        mpb = 2 + case['seed'] % 3
        sched = ScheduledClient(case['seed'] % 9973, 1 + case['seed'] % 4, REGIMES[case['seed'] % len(REGIMES)], mpb, prop='C20')
        elfi.client.set_client(sched)
        ckw = {'max_parallel_batches': mpb}
        ctx.event('mh_runs_under_scheduled_client')
        ctx.distinct('mh_schedule_regime', sched.regime)
    try:
        return _run_mh_body(ctx, case, elfi, BSL, pm, m, truth, k, created, order, rs, feats, d, variant, W, pen, lik, misspec, bound, p0, Sigma, ckw)
    finally:
        if ckw:
            import elfi.clients.native as nat
            elfi.client.set_client(nat.Client())


def _run_mh_body(ctx, case, elfi, BSL, pm, m, truth, k, created, order, rs, feats, d, variant, W, pen, lik, misspec, bound, p0, Sigma, ckw):
    bsl = elfi.BSL(m, n_sim_round=case['n_sim_round'], feature_names=feats if case['features_given'] else None,
                   batch_size=case['batch_size'], seed=case['seed'] % (2 ** 31), likelihood=lik, **ckw)
    bsl.random_state = RecRS(case['seed'] % (2 ** 31))
    inner = bsl._get_mh_ratio

    def rec_ratio():
        v = inner()
        LOG.append(('ratio', float(v)))
        return v

    bsl._get_mh_ratio = rec_ratio
    N = case['n_samples']
    kwargs = {}
    if bound is not None:
        kwargs['logit_transform_bound'] = [tuple(r) for r in bound.tolist()]
    if misspec:
        kwargs.update(tau=case['tau'], w=case['w'])
    once = {}
    if k >= 2 and case['seed'] % 3 == 0:
        # an earlier, short estimation on the same sampler object with the parameters listed in another order: whatever the sampler
        # keeps between calls (prior, state) must not leak into the checked call below
        pre = list(order)[::-1]
        idx = [order.index(n) for n in pre]
        pkw = dict(kwargs)
        if bound is not None:
            pkw['logit_transform_bound'] = [tuple(r) for r in bound[idx].tolist()]
        try:
            bsl.sample(3, sigma_proposals=Sigma[np.ix_(idx, idx)].copy(), params0=p0[idx].tolist(), param_names=pre, burn_in=0, bar=False, **pkw)
            ctx.event('mh_runs_after_an_earlier_call_in_another_order')
        except RuntimeError as ex:
            if 'initialisation round' not in str(ex):
                raise
        del LOG[:]
    try:
        res = bsl.sample(N, sigma_proposals=Sigma.copy(), params0=p0.tolist(), param_names=list(order) if case['perm_names'] else None,
                         burn_in=case['burn_in'], bar=False, **kwargs)
    except RuntimeError as ex:
        if 'initialisation round' not in str(ex):
            raise
        # BSL refuses to start from a point whose likelihood estimate is not finite: legitimate when the
        # reference agrees that it is not finite (checked), then the run is outside the domain
        liks = [e for e in LOG if e[0] == 'lik']
        del LOG[:]
        if liks:
            check_lik(ctx, variant, liks[-1][1], liks[-1][2], liks[-1][4], W=W, penalty=pen, gamma=liks[-1][3], where='initial round')
        raise Skip('likelihood estimate not finite at the start point')
    ev = list(LOG)
    del LOG[:]

    # ---- what came back
    sa = res.samples_all
    chain = np.column_stack([np.asarray(sa[n], dtype=float) for n in order])
    if chain.shape != (N, k):
        raise Violation('chain-shape', 'chain has shape %s for n_samples=%d, %d parameters' % (chain.shape, N, k))
    for i, n in enumerate(order):
        if not np.array_equal(np.asarray(res.samples[n]), chain[case['burn_in']:, i]):
            raise Violation('burn-in', 'samples[%s] is not the chain after burn_in=%d' % (n, case['burn_in']))
    ssy = np.asarray(bsl.observed, dtype=float)

    def tf(x):
        return np.asarray(BSL._para_logit_transform(np.array(x, dtype=float), bound), dtype=float) if bound is not None else np.asarray(x, dtype=float)

    def back(y):
        return np.asarray(BSL._para_logit_back_transform(np.array(y, dtype=float), bound), dtype=float) if bound is not None else np.asarray(y, dtype=float)

    def take(i, kind):
        if i >= len(ev) or ev[i][0] != kind:
            return None
        return ev[i]

    def take_sims(i):
        rows = []
        while i < len(ev) and ev[i][0] == 'sim':
            rows.append(ev[i][1])
            i += 1
        return i, (np.vstack(rows) if rows else np.zeros((0, k)))

    def check_sims(rows, theta, what):
        ctx.event('sim_calls_observed', len(rows) > 0)
        if len(rows) != case['n_sim_round']:
            raise Violation('simulation-count', '%s: %d simulations ran, n_sim_round=%d' % (what, len(rows), case['n_sim_round']))
        # simulator parents are in creation order
        exp = np.array([theta[order.index(n)] for n in created])
        if not np.allclose(rows, exp[None, :], rtol=1e-12, atol=0):
            raise Violation('simulated-at-wrong-parameters', '%s: simulator ran at %s, the state is %s' % (what, rows[0], exp))

    def check_lik_event(e, what):
        _, ssx, y, gamma, val = e
        if ssx.shape != (case['n_sim_round'], d):
            raise Violation('summary-matrix-shape', 'likelihood received a %s matrix, expected (%d, %d)' % (ssx.shape, case['n_sim_round'], d))
        check_lik(ctx, variant, ssx, y, val, W=W, penalty=pen, gamma=gamma, where=what, once=once)

    # ---- replay
    if not np.allclose(chain[0], p0, rtol=0, atol=0):
        raise Violation('chain-start', 'chain starts at %s, params0=%s' % (chain[0], p0))
    i, rows = take_sims(0)
    check_sims(rows, p0, 'initial round')
    e = take(i, 'lik')
    if e is None:
        raise Violation('event-order', 'no likelihood evaluation after the initial simulations')
    check_lik_event(e, 'initial round')
    i += 1
    cur, cur_ll, cur_lp, cur_ssx = p0.copy(), e[4], ref_logprior(case, order, p0), e[1]
    n_acc = n_rej = n_zero = 0
    nonid = bound is not None and bool(np.isfinite(bound).any())
    for n in range(1, N):
        e = take(i, 'mvn')
        if e is None:
            raise Violation('event-order', 'transition %d: expected a proposal draw, log has %s' % (n, ev[i][0] if i < len(ev) else 'nothing'))
        i += 1
        _, mean, cov, smp = e
        tcur = tf(cur)
        if not np.allclose(np.ravel(mean), tcur, rtol=1e-10, atol=1e-12):
            raise Violation('proposal-centre', 'transition %d: proposal centred at %s, transformed current state is %s' % (n, np.ravel(mean), tcur),
                            {'current': cur, 'bound': bound})
        if not np.allclose(cov, Sigma, rtol=1e-12, atol=0):
            raise Violation('proposal-covariance', 'transition %d: proposal covariance differs from sigma_proposals' % n)
        prop = back(np.ravel(smp))
        lp = ref_logprior(case, order, prop)
        i, rows = take_sims(i)
        row = chain[n]
        if not (lp > -np.inf):
            # zero prior density (or outside the domain of a conditional): must not simulate, must repeat
            if np.isnan(lp):
                raise Skip('proposal with undefined reference prior')
            n_zero += 1
            nxt = ev[i][0] if i < len(ev) else None
            if len(rows) or nxt in ('lik', 'ratio', 'u'):
                raise Violation('simulated-outside-support', 'transition %d: proposal %s has zero prior density but %d simulations / a %s '
                                'event followed' % (n, prop, len(rows), nxt), {'proposal': prop, 'order': order})
            if not np.array_equal(row, cur):
                raise Violation('zero-prior-not-repeated', 'transition %d: proposal with zero prior density, chain row %s is not the current '
                                'state %s' % (n, row, cur), {'proposal': prop})
            ctx.event('mh_zero_prior_proposals')
            continue
        if not len(rows):
            raise Violation('supported-proposal-not-simulated', 'transition %d: proposal %s has prior log-density %r but no simulation ran' % (
                n, prop, lp), {'proposal': prop, 'order': order})
        check_sims(rows, prop, 'transition %d' % n)
        e = take(i, 'lik')
        if e is None:
            raise Violation('event-order', 'transition %d: no likelihood evaluation after the simulations' % n)
        i += 1
        check_lik_event(e, 'transition %d' % n)
        ll, gamma = e[4], e[3]
        er = take(i, 'ratio')
        if er is None:
            raise Violation('event-order', 'transition %d: _get_mh_ratio was not evaluated' % n)
        i += 1
        eu = take(i, 'u')
        if eu is None:
            raise Violation('event-order', 'transition %d: no uniform draw after the ratio' % n)
        i += 1
        u, ratio = eu[1], er[1]
        if np.isnan(ll) or ll == np.inf:
            raise Skip('likelihood estimate is nan/+inf')
        cur_ll_eff = ref_misspec(cur_ssx, ssy, gamma, variant) if misspec else cur_ll
        logR = (ll + lp) - (cur_ll_eff + cur_lp)
        conv = True
        if bound is not None:
            jp, c1 = num_logJ(BSL, prop, bound)
            jc, c2 = num_logJ(BSL, cur, bound)
            conv = c1 and c2
            logR = logR + jp - jc
        logRc = min(700.0, max(-700.0, logR)) if not np.isnan(logR) else np.nan
        if np.isnan(logRc):
            raise Skip('undefined reference ratio')
        acc_actual = np.allclose(row, prop, rtol=1e-12, atol=0)
        rej_actual = np.array_equal(row, cur)
        if not (acc_actual or rej_actual):
            raise Violation('chain-row-neither', 'transition %d: chain row %s is neither the proposal %s nor the current state %s' % (n, row, prop, cur))
        wit = {'transition': n, 'current': cur, 'proposal': prop, 'order': order, 'bound': bound, 'u': u, 'elfi_ratio': ratio,
               'ref_log_ratio': logR, 'loglik_prop': ll, 'logprior_prop': lp, 'loglik_curr': cur_ll_eff, 'logprior_curr': cur_lp,
               'variant': variant}
        if conv:
            with np.errstate(all='ignore'):
                lr = math.log(ratio) if ratio > 0 else -np.inf
            if not abs(lr - logRc) <= 1e-6 * (1.0 + abs(logRc)):
                raise Violation('mh-ratio-value', 'transition %d: _get_mh_ratio returned exp(%r), posterior ratio x Jacobian ratio is exp(%r)' % (
                    n, lr, logRc), wit)
            ctx.event('mh_ratio_values_checked')
        R = math.exp(logRc)
        thr = min(1.0, R)
        ambiguous = (not conv) or abs(u - thr) <= 1e-6 * thr
        both = acc_actual and rej_actual       # proposal equal to the current state: the row cannot tell
        if ambiguous or both:
            ctx.event('mh_ambiguous_transitions')
            accepted = acc_actual and not rej_actual if not both else (u < thr)
        else:
            accepted = acc_actual
            if (u < thr) != accepted:
                raise Violation('mh-accept-decision', 'transition %d: u=%r, min(1, ratio)=%r, but the proposal was %s' % (
                    n, u, thr, 'accepted' if accepted else 'rejected'), wit)
        ctx.event('mh_transitions_checked')
        if accepted:
            n_acc += 1
            # continue from elfi's own row so that rounding never accumulates
            cur, cur_ll, cur_lp, cur_ssx = np.array(row, dtype=float), ll, lp, e[1]
        else:
            n_rej += 1
    if i != len(ev):
        raise Violation('event-order', 'events left after the last transition: %s' % [x[0] for x in ev[i:i + 5]])
    ctx.event('mh_accepted', n_acc)
    ctx.event('mh_rejected', n_rej)
    ctx.event('mh_runs_transformed' if nonid else 'mh_runs_untransformed')
    if bound is not None:
        for t in np.matmul(np.isinf(bound), [1, 2]):
            ctx.event('mh_bound_type%d' % int(t))
    if misspec:
        ctx.event('mh_runs_misspec')
    if variant == 'go':
        ctx.event('mh_runs_go')
    if W is not None:
        ctx.event('mh_runs_whitening')
    ctx.distinct('mh_config', '%s|%s|k%d|d%d|bs%s' % (variant, None if bound is None else sorted(int(t) for t in np.matmul(np.isinf(bound), [1, 2])),
                                                      k, d, case['batch_size'] == case['n_sim_round']))
    ctx.nontrivial(nonid and n_acc >= 1 and (n_rej + n_zero) >= 1)


def run_case(ctx, case):
    if case['kind'] == 'lik':
        return run_lik(ctx, case)
    if case['kind'] == 'tf':
        return run_tf(ctx, case)
    return run_mh(ctx, case)
