"""Contracts layer: icontract post-conditions attached to real elfi functions from outside.

    with attached(ctx, Spec('elfi.methods.utils', 'weighted_sample_quantile', post=quantile_post, prop='C13')):
        ... run any workload; the contract also fires on internal calls ...

`post(result, **bound_arguments)` is a named condition function returning True or a string /
tuple describing the refutation (icontract only sees True/False; the description is carried
in the raised core.Violation).  attach() patches the function in its home module *and in every
loaded elfi module that holds a `from ... import` reference to it* and counts evaluations in
ctx.counters['contract_<name>']; zero evaluations must be treated as inconclusive (REQUIRED).
"""
import contextlib
import functools
import importlib
import inspect
import sys

import icontract

from vmon.core import Violation


class Spec:
    def __init__(self, module, name, post, prop, key=None, owner=None, pre_snapshot=None):
        self.module, self.name, self.post, self.prop = module, name, post, prop
        self.key = key or ('contract:' + name)
        self.owner = owner          # class name when the target is a method / staticmethod
        self.pre_snapshot = pre_snapshot


def _wrap(ctx, spec, fn):
    sig = inspect.signature(fn)
    state = {}

    def condition(**kwargs):
        result = kwargs.pop('result')
        ctx.event('contract_' + spec.name)
        verdict = spec.post(result=result, **kwargs)
        if verdict is True or verdict is None:
            return True
        state['why'] = verdict
        state['args'] = kwargs
        return False

    # icontract inspects the condition's parameter names: build one with the function's own names
    names = [p for p in sig.parameters]
    has_var = any(p.kind in (p.VAR_POSITIONAL, p.VAR_KEYWORD) for p in sig.parameters.values())
    if has_var:
        return _wrap_plain(ctx, spec, fn)
    src = 'def cond(%s):\n    return _condition(%s)\n' % (
        ', '.join(names + ['result']), ', '.join('%s=%s' % (n, n) for n in names + ['result']))
    ns = {'_condition': condition}
    exec(src, ns)

    def error(**kwargs):
        return Violation(spec.key, str(state.get('why')), {'args': _short(state.get('args'))})

    err_src = 'def err(%s):\n    return _error()\n' % ', '.join(names + ['result'])
    ns2 = {'_error': error}
    exec(err_src, ns2)
    return icontract.ensure(ns['cond'], error=ns2['err'])(fn)


def _wrap_plain(ctx, spec, fn):
    """Fallback for *args/**kwargs signatures (icontract cannot bind those by name)."""
    @functools.wraps(fn)
    def wrapper(*a, **k):
        result = fn(*a, **k)
        ctx.event('contract_' + spec.name)
        verdict = spec.post(result=result, args=a, kwargs=k)
        if not (verdict is True or verdict is None):
            raise Violation(spec.key, str(verdict), {'args': _short({'args': a, 'kwargs': k})})
        return result
    return wrapper


def _short(o, depth=0):
    import numpy as np
    if isinstance(o, dict):
        return {str(k): _short(v, depth + 1) for k, v in list(o.items())[:12]}
    if isinstance(o, (list, tuple)):
        return [_short(v, depth + 1) for v in o[:12]]
    if isinstance(o, np.ndarray):
        return o if o.size <= 60 else {'shape': list(o.shape), 'head': o.ravel()[:30]}
    if isinstance(o, (int, float, str, bool, type(None), np.generic)):
        return o
    return repr(o)[:200]


@contextlib.contextmanager
def attached(ctx, *specs):
    patched = []
    try:
        for spec in specs:
            mod = importlib.import_module(spec.module)
            if spec.owner:
                cls = getattr(mod, spec.owner)
                raw = inspect.getattr_static(cls, spec.name)
                is_static = isinstance(raw, staticmethod)
                is_cls = isinstance(raw, classmethod)
                fn = raw.__func__ if (is_static or is_cls) else raw
                new = _wrap(ctx, spec, fn)
                if is_static:
                    new = staticmethod(new)
                elif is_cls:
                    new = classmethod(new)
                setattr(cls, spec.name, new)
                patched.append((cls, spec.name, raw))
                continue
            orig = getattr(mod, spec.name)
            new = _wrap(ctx, spec, orig)
            for mname, m in list(sys.modules.items()):
                if m is None or not (mname == 'elfi' or mname.startswith('elfi.')):
                    continue
                for attr, val in list(vars(m).items()):
                    if val is orig:
                        setattr(m, attr, new)
                        patched.append((m, attr, orig))
        yield
    finally:
        for holder, attr, orig in reversed(patched):
            setattr(holder, attr, orig)
