import compat, numpy as np, elfi, warnings, random, sys, copy, tempfile, os, pickle
warnings.simplefilter('ignore')
import logging; logging.disable(logging.CRITICAL)
class Sym:
    def __init__(self, opid): self.opid=opid
    def __call__(self, *a, **k):
        k2 = {kk:('RS' if kk=='random_state' else v) for kk,v in k.items()}
        return ('T', self.opid, a, tuple(sorted(k2.items(), key=lambda t:t[0])))
    def __eq__(self, o): return isinstance(o,Sym) and o.opid==self.opid
    def __hash__(self): return hash(self.opid)
class Dist:
    def __init__(self, opid): self.opid=opid
    def rvs(self, *params, size=1, random_state=None):
        return ('R', self.opid, params, size, 'RS' if random_state is not None else None)
    def __eq__(self, o): return isinstance(o,Dist) and o.opid==self.opid
    def __hash__(self): return hash(self.opid)
CLS = {'op':elfi.Operation,'prior':elfi.Prior,'sim':elfi.Simulator,'summary':elfi.Summary,'disc':elfi.Discrepancy,'const':elfi.Constant}
class Ref:  # reference spec: dict name-> node
    def __init__(self): self.nodes={}; self.ctr=0
    def children(self, n): return [m for m,s in self.nodes.items() if n in [p for p in s['pos'] if isinstance(p,str)] or n in s['kw'].values()]
    def descendants(self, n):
        out=set(); st=[n]
        while st:
            x=st.pop()
            for c in self.children(x):
                if c not in out: out.add(c); st.append(c)
        return out
def new_node_spec(rng, ref, avail, kinds=None):
    kind = rng.choice(kinds or (['const','op','prior'] + (['sim','summary','disc'] if avail else [])))
    ref.ctr+=1; opid='o%d'%ref.ctr
    k = 0 if kind=='const' else rng.randint(1 if kind in ('summary','disc') else 0, 3)
    pos=[]
    for _ in range(k):
        if avail and rng.random()<0.7:
            p=rng.choice(avail)
            if p not in pos: pos.append(p)
        elif kind!='disc' or True:
            ref.ctr+=1; pos.append(('C','c%d'%ref.ctr))   # inline constant
    if kind in ('summary','disc') and not pos:
        ref.ctr+=1; pos.append(('C','c%d'%ref.ctr))
    kw={}
    obs = ('O',opid) if (kind in ('sim','summary') and rng.random()<0.6) else None
    return dict(kind=kind, opid=opid, pos=pos, kw=kw, obs=obs, param=(kind=='prior'))
def elfi_create(m, name, s):
    P=[(m[p] if isinstance(p,str) else p) for p in s['pos']]
    if s['kind']=='const': return elfi.Constant(('V',s['opid']), model=m, name=name)
    if s['kind']=='op': return elfi.Operation(Sym(s['opid']), *P, model=m, name=name)
    if s['kind']=='prior': return elfi.Prior(Dist(s['opid']), *P, model=m, name=name)
    if s['kind']=='sim': return elfi.Simulator(Sym(s['opid']), *P, model=m, name=name, observed=s['obs'])
    if s['kind']=='summary': return elfi.Summary(Sym(s['opid']), *P, model=m, name=name, observed=s['obs'])
    if s['kind']=='disc': return elfi.Discrepancy(Sym(s['opid']), *P, model=m, name=name)
def build(ref):
    m = elfi.ElfiModel(name='r'); done=set(); pend=list(ref.nodes)
    while pend:
        for n in list(pend):
            s=ref.nodes[n]
            if all((not isinstance(p,str)) or p in done for p in s['pos']):
                elfi_create(m, n, s); done.add(n); pend.remove(n)
    m.parameter_names = [n for n,s in ref.nodes.items() if s['param']]
    for n,s in ref.nodes.items():
        if s['obs'] is not None: m.observed[n]=s['obs']
        elif n in m.observed: m.observed.pop(n)
    return m
def canon(m):
    out={}
    sn = m.source_net
    for n in sn.nodes:
        if n.startswith('_'):
            assert sn.degree(n)>0, ('orphan private', n)
            continue
        st = sn.nodes[n]['attr_dict']
        pos=[]; kw={}
        idx=[]
        for p in sn.predecessors(n):
            par = sn[p][n]['param']
            val = ('C', sn.nodes[p]['attr_dict']['_output']) if p.startswith('_') else p
            if isinstance(par,int): idx.append(par); pos.append((par,val))
            else: kw[par]=val
        assert sorted(idx)==list(range(len(idx))), ('positional gaps', n, idx)
        pos=[v for _,v in sorted(pos, key=lambda t:t[0])]
        op = st.get('_operation'); 
        opid = st['distribution'].opid if 'distribution' in st else (op.opid if hasattr(op,'opid') else ('V', st.get('_output')))
        out[n]=dict(cls=st['_class'].__name__, opid=opid, pos=pos, kw=kw, obs=m.observed.get(n), param='_parameter' in st)
    assert set(m.observed) <= set(out), ('observed for absent node', set(m.observed)-set(out))
    import networkx as nx
    assert nx.is_directed_acyclic_graph(sn)
    assert m.parameter_names == sorted(n for n,v in out.items() if v['param'])
    return out
KN = {'op':'Operation','prior':'Prior','sim':'Simulator','summary':'Summary','disc':'Discrepancy','const':'Constant'}
def canon_ref(ref):
    out={}
    for n,s in ref.nodes.items():
        pos=[(('C',('C' if False else None)) if False else (p if isinstance(p,str) else ('C', p))) for p in s['pos']]
        pos=[p if isinstance(p,str) else ('C', p[1]) for p in s['pos']]
        # inline constant value is the tuple itself
        pos=[p if isinstance(p,str) else ('C', p) for p in s['pos']]
        opid = s['opid'] if s['kind']!='const' else ('V',('V',s['opid']))
        out[n]=dict(cls=KN[s['kind']], opid=opid, pos=pos, kw=dict(s['kw']), obs=s['obs'], param=s['param'])
    return out
def gen_all(m, seed=3):
    res={}
    for n in [x for x in m.source_net.nodes if not x.startswith('_')]:
        try: res[n]=('ok', m.generate(2, [n], seed=seed)[n])
        except Exception as e: res[n]=('err', type(e).__name__)
    return res
def snapshot(m):
    c = canon(m); return repr(sorted((k, repr(sorted(v.items(), key=lambda t:t[0]))) for k,v in c.items()))
rng = random.Random(int(sys.argv[1]) if len(sys.argv)>1 else 0); NH=int(sys.argv[2]) if len(sys.argv)>2 else 200
fails={}; nchecks=0
for hi in range(NH):
    ref=Ref(); m=elfi.ElfiModel(name='h%d'%hi); watched=[]   # (model, ref snapshot deep copy)
    hist=[]
    try:
        for step in range(rng.randint(3,12)):
            pub=list(ref.nodes)
            acts=['add']*3 + (['become','remove','flags','obs']*1 if pub else []) + ['copy','saveload']
            a=rng.choice(acts)
            if a=='add':
                s=new_node_spec(rng, ref, pub); name='n%d'%ref.ctr; elfi_create(m,name,s); ref.nodes[name]=s; hist.append(('add',name,s['kind']))
            elif a=='become':
                T=rng.choice([n for n in pub]) 
                if ref.nodes[T]['kind']=='const': continue
                forbidden = ref.descendants(T)|{T}
                avail=[n for n in pub if n not in forbidden]
                s=new_node_spec(rng, ref, avail, kinds=['op','prior','sim','summary','disc'] if avail else ['op','prior'])
                rname='r%d'%ref.ctr; R=elfi_create(m, rname, s)
                m[T].become(R)
                ref.nodes[T]=s; hist.append(('become',T,s['kind']))
            elif a=='remove':
                leaves=[n for n in pub if not ref.children(n)]
                if not leaves: continue
                T=rng.choice(leaves); m.remove_node(T); del ref.nodes[T]; hist.append(('remove',T))
            elif a=='flags':
                pri=[n for n in pub if ref.nodes[n]['kind']=='prior']
                sel=[n for n in pri if rng.random()<0.5]
                m.parameter_names = sel
                for n in ref.nodes: ref.nodes[n]['param'] = n in sel
                hist.append(('flags',tuple(sel)))
            elif a=='obs':
                ob=[n for n in pub if ref.nodes[n]['kind'] in ('sim','summary')]
                if not ob: continue
                T=rng.choice(ob); ref.ctr+=1; v=('O2',ref.ctr); m.observed[T]=v; ref.nodes[T]['obs']=v; hist.append(('obs',T))
            elif a=='copy':
                c=m.copy(); 
                if gen_all(c)!=gen_all(m): raise AssertionError(('copy outputs differ',))
                if rng.random()<0.5: watched.append((m, snapshot(m), gen_all(m))); m=c
                else: watched.append((c, snapshot(c), gen_all(c)))
                hist.append(('copy',))
            elif a=='saveload':
                d=tempfile.mkdtemp(); m.save(prefix=d); l=elfi.ElfiModel.load(m.name, prefix=d)
                import shutil; shutil.rmtree(d)
                if gen_all(l)!=gen_all(m): raise AssertionError(('load outputs differ',))
                hist.append(('saveload',))
            # checks
            nchecks+=1
            ce=canon(m); cr=canon_ref(ref)
            if ce!=cr:
                diff=[(k,ce.get(k),cr.get(k)) for k in set(ce)|set(cr) if ce.get(k)!=cr.get(k)]
                raise AssertionError(('structure', diff[:2]))
            fresh=build(ref)
            if gen_all(m)!=gen_all(fresh): raise AssertionError(('meaning',))
            for wm, snap, outs in watched:
                if snapshot(wm)!=snap: raise AssertionError(('watched model changed structurally',))
                if gen_all(wm)!=outs: raise AssertionError(('watched model outputs changed',))
    except AssertionError as e:
        key=str(e.args[0][0]) if isinstance(e.args[0],tuple) else str(e)[:60]
        fails.setdefault(key, []).append((hist[-3:], str(e)[:400]))
    except Exception as e:
        key='EXC '+type(e).__name__+' '+str(e)[:80]
        fails.setdefault(key, []).append((hist[-3:], ''))
print('histories', NH, 'checks', nchecks)
for k,v in fails.items(): print('FAIL', k, len(v), v[0])
