import compat, numpy as np, elfi, warnings, random, sys, math
warnings.simplefilter('ignore')
import logging; logging.disable(logging.CRITICAL)
def mkmodel(rng):
    m = elfi.ElfiModel(name='m')
    npar = rng.randint(1,3); P=[]
    for i in range(npar):
        kind = rng.choice(['unif','norm','hier']) if P else rng.choice(['unif','norm'])
        if kind=='unif': P.append(elfi.Prior('uniform', -1, 3, model=m, name='p%d'%i))
        elif kind=='norm': P.append(elfi.Prior('norm', 0.5, 1.5, model=m, name='p%d'%i))
        else: P.append(elfi.Prior('norm', P[-1], 0.5, model=m, name='p%d'%i))
    width = rng.choice([1,2,4])
    def sim(*th, batch_size=1, random_state=None):
        th = np.column_stack(th); return th.sum(1)[:,None] + random_state.randn(batch_size, width)
    S = elfi.Simulator(sim, *P, model=m, name='S', observed=np.zeros((1,width)))
    s1 = elfi.Summary(lambda x: x.mean(1), S, model=m, name='s1')
    s2 = elfi.Summary(lambda x: x[:, :min(2,x.shape[1])], S, model=m, name='s2')
    flavour = rng.choice(['cont','quant','inf','quantinf'])
    def disc(a, b, observed):
        d = np.abs(a-observed[0].ravel()[0]) + 0.1*np.abs(b).sum(1)
        if 'quant' in flavour: d = np.floor(d*3)/3
        if 'inf' in flavour: d = np.where(d > 1.0, np.inf, d)
        return d
    d = elfi.Discrepancy(disc, s1, s2, model=m, name='d')
    return m, flavour, npar
def check(rng):
    m, flavour, npar = mkmodel(rng)
    bs = rng.choice([1,2,3,5,8,16,50]); n = rng.choice([1,2,3,5,8,16,20])
    mode = rng.choice(['threshold','quantile','n_sim'])
    kw={}
    if mode=='n_sim': kw['n_sim']= max(n, rng.randint(n, 6*n+10))
    elif mode=='quantile': kw['quantile']=rng.choice([0.1,0.25,0.5,0.9,1.0])
    else:
        kw['threshold']= rng.choice([1/3, 2/3, 1.0, 0.4, 0.8, 1.5, 4/3]) 
    outn = rng.sample(['s1','s2','S'], rng.randint(0,3))
    seed = rng.randint(0,10**6)
    rej = elfi.Rejection(m['d'], batch_size=bs, seed=seed, output_names=list(outn), max_parallel_batches=rng.randint(1,4))
    hist=[]; upd=rej.update
    def u(batch, idx): hist.append((idx,{k:np.array(v,copy=True) for k,v in batch.items()})); return upd(batch, idx)
    rej.update=u
    res = rej.sample(n, bar=False, **kw)
    names = ['d']+['p%d'%i for i in range(npar)]+list(outn)
    assert set(names) <= set(res.outputs), 'missing outputs'
    B=len(hist); assert [h[0] for h in hist]==list(range(B)), 'indices'
    assert res.n_sim==bs*B and res.n_batches==B, 'n_sim'
    if mode=='n_sim': assert B==math.ceil(kw['n_sim']/bs), 'budget batches'
    if mode=='quantile': assert B==math.ceil(math.ceil(n/kw['quantile'])/bs), 'budget batches q'
    allrows = {k: np.concatenate([h[1][k] for h in hist]) for k in names}
    D = allrows['d']; elig = np.ones(len(D),bool) if mode!='threshold' else D<=kw['threshold']
    rd = res.outputs['d']; assert len(rd)==n, 'len'
    assert np.all(rd[:-1]<=rd[1:]), 'order'
    exp = np.sort(D[elig])[:n]
    assert np.array_equal(exp, rd), ('multiset', flavour, mode, exp[-3:], rd[-3:])
    assert res.threshold==rd[-1], 'threshold'
    # row identity
    def key(src, i): return tuple(src[k][i].tobytes() for k in names)
    pool={}
    for i in np.where(elig)[0]: pool.setdefault(key(allrows,i),[]).append(i)
    used=set()
    for i in range(n):
        k=key(res.outputs,i); assert k in pool and pool[k], ('row not simulated', flavour, mode, i, rd[i])
        used.add(pool[k].pop())
    mx=rd[-1]
    for i in np.where(elig & (D<mx))[0]: assert i in used, 'missing better row'
    return (flavour, mode, B>1, np.sum(elig)>n)
rng=random.Random(int(sys.argv[1])); N=int(sys.argv[2]); fails={}; cov={}
for it in range(N):
    st=rng.getstate()
    try:
        c=check(rng); cov[c]=cov.get(c,0)+1
    except AssertionError as e:
        k=str(e.args[0][0] if isinstance(e.args[0],tuple) else e.args[0]); fails.setdefault(k,[]).append(str(e)[:200])
    except Exception as e:
        k='EXC '+type(e).__name__+str(e)[:80]; fails.setdefault(k,[]).append('')
print('runs',N,'distinct cov',len(cov))
for k,v in fails.items(): print('FAIL',k,len(v),v[0])
