import compat, numpy as np, elfi, warnings, random, sys
warnings.simplefilter('ignore')
import logging; logging.disable(logging.CRITICAL)
import elfi.client
from elfi.model.elfi_model import ComputationContext
from elfi.store import OutputPool
CALLS={}
class Sym:
    def __init__(self, name, npos, kws, stochastic=False, uses_bs=False, tolerant=False):
        self.name=name; self.npos=npos; self.kws=kws; self.st=stochastic; self.bs=uses_bs; self.tol=tolerant
    def __call__(self, *a, **k):
        if not self.tol:
            if len(a)!=self.npos: raise TypeError('arity')
            need=set(self.kws)|({'random_state'} if self.st else set())|({'batch_size'} if self.bs else set())
            if not need <= set(k): raise TypeError('missing kw %s'%(need-set(k)))
        twin = any(isinstance(x,tuple) and x and x[0] in ('O','TO') for x in list(a)+list(k.values())) or False
        CALLS[self.name]=CALLS.get(self.name,0)+1
        k2={kk:('RS' if kk=='random_state' else (('META',v['batch_index']) if kk=='meta' else v)) for kk,v in k.items()}
        return ('T', self.name, a, tuple(sorted(k2.items(), key=lambda t:t[0])))
class Dist:
    def __init__(self, name, npos): self.name=name; self.npos=npos
    def rvs(self, *params, size=1, random_state=None):
        if len(params)!=self.npos or random_state is None: raise TypeError('arity')
        CALLS[self.name]=CALLS.get(self.name,0)+1
        return ('R', self.name, params, size, 'RS')
def gen(rng):
    n=rng.randint(3,10); spec=[]; names=[]
    for i in range(n):
        nm='n%d'%i; avail=list(names)
        kind=rng.choice(['const','op','prior']+(['sim','summary','disc']*2 if avail else []))
        k=0 if kind=='const' else rng.randint(1 if kind in('summary','disc') else 0, min(3,len(avail)))
        pos=list(dict.fromkeys(rng.choice(avail) for _ in range(k))) if avail else []
        if kind in ('summary','disc') and not pos: kind='op'
        kw={}
        if kind in('op','sim','summary','prior') and avail and rng.random()<0.4 and kind!='prior':
            c=[a for a in avail if a not in pos]
            if c: kw['kw0']=rng.choice(c)
        obs=(kind in('sim','summary') and rng.random()<(0.8 if kind=='sim' else 0.4))
        meta = kind=='op' and rng.random()<0.3
        tol = kind=='sim' and rng.random()<0.05
        spec.append(dict(name=nm,kind=kind,pos=pos,kw=kw,obs=obs,meta=meta,tol=tol)); names.append(nm)
    return spec
def build(spec):
    m=elfi.ElfiModel(name='g'); refs={}
    for s in spec:
        nm=s['name']; P=[refs[p] for p in s['pos']]
        if s['kind']=='const': r=elfi.Constant(('C',nm),model=m,name=nm)
        elif s['kind']=='op': r=elfi.Operation(Sym(nm,len(P),list(s['kw'])+(['meta'] if s['meta'] else [])),*P,model=m,name=nm)
        elif s['kind']=='prior': r=elfi.Prior(Dist(nm,len(P)),*P,model=m,name=nm)
        elif s['kind']=='sim': r=elfi.Simulator(Sym(nm,len(P),list(s['kw']),True,True,s['tol']),*P,model=m,name=nm,observed=('O',nm) if s['obs'] else None)
        elif s['kind']=='summary': r=elfi.Summary(Sym(nm,len(P),list(s['kw'])),*P,model=m,name=nm,observed=('O',nm) if s['obs'] else None)
        else: r=elfi.Discrepancy(Sym(nm,len(P),['observed']),*P,model=m,name=nm)
        for k,p in s['kw'].items(): m.add_edge(p,nm,k)
        if s['meta']: r.uses_meta=True
        refs[nm]=r
    return m
class Reject(Exception): pass
def interp(spec, outputs, bs, given, bidx=0):
    S={s['name']:s for s in spec}; memo={}; omemo={}; ran=[]
    def val(n):
        if n in given: return given[n]
        if n in memo: return memo[n]
        s=S[n]
        if s['kind']=='const': v=('C',n)
        else:
            a=tuple(val(p) for p in s['pos']); k={kk:val(p) for kk,p in s['kw'].items()}
            if s['kind']=='prior': v=('R',n,a,(bs,),'RS')
            else:
                if s['kind']=='sim': k['batch_size']=bs; k['random_state']='RS'
                if s['meta']: k['meta']=('META',bidx)
                if s['kind']=='disc': k['observed']=tuple(oval(p) if S[p]['kind'] in('sim','summary') else plain_det(p) for p in s['pos'])
                v=('T',n,a,tuple(sorted(k.items(),key=lambda t:t[0])))
            ran.append(n)
        memo[n]=v; return v
    def plain_det(p):
        chk(p); return val(p)
    def chk(p):
        s=S[p]
        if p in given: return
        if s['kind'] in('prior','sim'): raise Reject(('stochastic ancestor',p))
        for q in list(s['pos'])+list(s['kw'].values()): chk(q)
    def oval(n):
        if n in omemo: return omemo[n]
        s=S[n]
        if s['obs']: v=('O',n)
        elif s['kind']=='sim': raise Reject(('sim without obs',n,s['tol']))
        else:
            def pv(p): return oval(p) if S[p]['kind'] in('sim','summary') else plain_det(p)
            a=tuple(pv(p) for p in s['pos']); k={kk:pv(p) for kk,p in s['kw'].items()}
            ran.append('_obs_'+n)
            v=('T',n,a,tuple(sorted(k.items(),key=lambda t:t[0])))
        omemo[n]=v; return v
    return {o:val(o) for o in outputs}, ran
def graph_has_stochastic_observed(spec):
    S={s['name']:s for s in spec}
    def raw_stoch(p, seen):
        if p in seen: return False
        seen.add(p); s=S[p]
        if s['kind'] in ('prior','sim'): return True
        return any(raw_stoch(q,seen) for q in list(s['pos'])+list(s['kw'].values()))
    def twin_stoch(n, seen):
        # does the observed twin of observable node n depend on a stochastic source node via a raw edge?
        s=S[n]
        if s['obs'] or s['kind']=='sim': return False
        for p in list(s['pos'])+list(s['kw'].values()):
            if S[p]['kind'] in ('sim','summary'):
                if twin_stoch(p, seen): return True
            elif raw_stoch(p, set()): return True
        return False
    for s in spec:
        if s['kind']=='disc':
            for p in s['pos']:
                if S[p]['kind'] in ('sim','summary'):
                    if twin_stoch(p,set()): return True
                elif raw_stoch(p,set()): return True
    return False
rng=random.Random(int(sys.argv[1])); N=int(sys.argv[2]); st={'ok':0,'rej_ok':0,'known':0,'admissible_graph_reject':0}; viol=[]
for it in range(N):
    spec=gen(rng); names=[s['name'] for s in spec]
    try: m=build(spec)
    except Exception as e: viol.append(('build',repr(e),spec)); continue
    wholegraph=graph_has_stochastic_observed(spec)
    # several requests on the same model, incl BatchHandler reuse
    for req in range(3):
        outs=rng.sample(names, rng.randint(1,len(names))); bs=rng.randint(1,4)
        given={n:('G',n,req) for n in rng.sample(names, rng.randint(0,2))} if rng.random()<0.5 else {}
        given={k:v for k,v in given.items()}
        CALLS.clear()
        try: ref,ran=interp(spec,outs,bs,given); rej=None
        except Reject as r: ref=None; rej=r.args[0]
        try:
            got=m.generate(bs,outs,with_values=given or None,seed=rng.randint(0,99)); err=None
        except Exception as e: got=None; err=e
        if ref is None:
            if got is None: st['rej_ok']+=1
            elif rej[0]=='sim without obs' and rej[2]: st['known']+=1
            else: viol.append(('evaluated-not-rejected',rej,spec,outs,given))
        else:
            if got is None:
                if wholegraph: st['admissible_graph_reject']+=1
                else: viol.append(('unexpected error',repr(err)[:200],spec,outs,given))
            else:
                exp_calls={}
                for r_ in ran: 
                    k=r_.replace('_obs_',''); exp_calls[k]=exp_calls.get(k,0)+1
                if got==ref and CALLS==exp_calls: st['ok']+=1
                else: viol.append(('mismatch',spec,outs,given,got==ref,CALLS,exp_calls))
print(st, 'viol', len(viol))
seen=set()
for v in viol:
    if v[0] not in seen: seen.add(v[0]); print('VIOL', v)
