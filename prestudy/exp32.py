import compat, numpy as np, os, sys, builtins, pickle, random, shutil, tempfile, json, traceback
import elfi.store as st
# ---------- file proxy -------------
class Ctl: pass
CTL = Ctl(); CTL.count=0; CTL.kill_at=None; CTL.after_first_flush=False; CTL.points=[]
def lowlevel(kind):
    CTL.count += 1
    return CTL.count
class FP:
    def __init__(self, f): object.__setattr__(self,'_f',f)
    def __getattr__(self, n):
        a = getattr(self._f, n)
        if n in ('write','truncate','flush','close'):
            def w(*args, **kw):
                k = lowlevel(n)
                if CTL.kill_at == (k,'before'): os._exit(77)
                r = a(*args, **kw)
                if CTL.kill_at == (k,'after'): os._exit(77)
                return r
            return w
        return a
def popen(name, mode='r', *a, **k):
    f = builtins.open(name, mode, *a, **k)
    return FP(f) if str(name).endswith('.npy') else f
st.open = popen
# ---------- history generation -------------
DT = [np.float64, np.float32, np.int64, np.int32, np.int8, np.uint8, np.bool_, np.complex128]
def gen_history(rng):
    dt = rng.choice(DT); row = rng.choice([(), (2,), (3,), (2,2)]); bs = rng.randint(1,4)
    n = rng.randint(5,12); ops=[]; nb=0; flushed=False
    for i in range(n+1):
        if i==n:
            ops.append(('close',)); break
        choices = ['append']*3 + (['overwrite','delete']*2 if nb>0 else []) + ['flush']*2 + ['reopen','pickle'] + (['clear'] if nb>0 and rng.random()<0.3 else [])
        if i==0: choices=['append']
        if i==2 and not flushed: choices=['flush']
        op = rng.choice(choices)
        if op=='append': ops.append(('append', nb, rng.randint(0,10**6))); nb+=1
        elif op=='overwrite': ops.append(('overwrite', rng.randrange(nb), rng.randint(0,10**6)))
        elif op=='delete': ops.append(('delete', nb-1)); nb-=1
        elif op=='clear': ops.append(('clear',)); nb=0
        else: ops.append((op,)); flushed = flushed or op in ('flush','reopen','pickle')
    return dict(dtype=np.dtype(dt).str, row=row, bs=bs, ops=ops)
def mkbatch(h, seed):
    r = np.random.RandomState(seed); shape=(h['bs'],)+tuple(h['row']); dt=np.dtype(h['dtype'])
    if dt.kind=='b': return r.rand(*shape)>0.5
    if dt.kind=='c': return (r.randn(*shape)+1j*r.randn(*shape)).astype(dt)
    if dt.kind in 'iu': return r.randint(0,100,size=shape).astype(dt)
    return r.randn(*shape).astype(dt)
def run_history(h, d, log=None, check=True):
    """returns list of (opindex, lowlevel count after op, model snapshot, flushed?)"""
    fn = os.path.join(d,'s'); store = st.NpyStore(fn, h['bs']); model=[]; trace=[]
    for i,op in enumerate(h['ops']):
        if log is not None: log.append(('begin', i, CTL.count))
        k=op[0]
        if k=='append': b=mkbatch(h,op[2]); store[op[1]]=b; model.append(b)
        elif k=='overwrite': b=mkbatch(h,op[2]); store[op[1]]=b; model[op[1]]=b
        elif k=='delete': del store[op[1]]; model.pop()
        elif k=='clear': store.clear(); model=[]
        elif k=='flush': store.flush()
        elif k=='reopen': store.close(); store = st.NpyStore(fn, h['bs'])
        elif k=='pickle': store = pickle.loads(pickle.dumps(store))
        elif k=='close': store.close()
        if log is not None: log.append(('end', i, CTL.count, [m.tolist() if m.dtype.kind!='c' else [str(x) for x in m.ravel()] for m in model], k in ('flush','reopen','pickle','close')))
        if check and k!='close':
            assert len(store)==len(model), ('len', i, op, len(store), len(model))
            for j,m in enumerate(model):
                assert j in store; g=np.array(store[j]); assert g.dtype==m.dtype and np.array_equal(g,m), ('content', i, op, j)
            assert len(model) not in store
            if k in ('flush','reopen','pickle'):
                L = np.load(fn+'.npy'); exp = np.concatenate(model) if model else np.zeros((0,)+tuple(h['row']), dtype=h['dtype'])
                assert L.dtype==exp.dtype and L.shape==exp.shape and np.array_equal(L,exp), ('npload', i, op, L.shape, exp.shape)
    return trace
def content(model_list, h):
    return model_list
rng = random.Random(int(sys.argv[1]) if len(sys.argv)>1 else 0)
NH = int(sys.argv[2]) if len(sys.argv)>2 else 30
statsA={'ok':0,'fail':0}; statsB={'points':0,'bad':0}; seenbad=set()
for hi in range(NH):
    h = gen_history(rng)
    d = tempfile.mkdtemp(dir='/root/scratch/c06'); CTL.count=0; CTL.kill_at=None; log=[]
    try:
        run_history(h, d, log=log); statsA['ok']+=1
    except Exception as e:
        statsA['fail']+=1
        key = str(e.args[0][:3] if e.args and isinstance(e.args[0],tuple) else type(e).__name__)
        if key not in seenbad: seenbad.add(key); print('A-FAIL', h, repr(e)[:300]); traceback.print_exc(limit=3)
        shutil.rmtree(d); continue
    K = CTL.count; shutil.rmtree(d)
    ends = [e for e in log if e[0]=='end']; begins=[e for e in log if e[0]=='begin']
    first_flush = next((e for e in ends if e[4]), None)
    if first_flush is None: continue
    for k in range(first_flush[2]+1, K+1):
        for ph in ('before','after'):
            d = tempfile.mkdtemp(dir='/root/scratch/c06')
            pid = os.fork()
            if pid==0:
                try:
                    CTL.count=0; CTL.kill_at=(k,ph); run_history(h, d, check=False)
                finally: os._exit(0)
            _, status = os.waitpid(pid,0)
            statsB['points']+=1
            # admissible: states from last completed flush before kill .. op in progress
            # op in progress: first op with end count >= k (before) ; 
            inprog = next(i for i,e in enumerate(ends) if e[2] >= k)
            lastflush = max(i for i,e in enumerate(ends) if e[4] and (e[2] < k or (e[2]==k and ph=='after' and False)) )
            adm = [ends[j][3] for j in range(lastflush, inprog+1)]
            try:
                L = np.load(os.path.join(d,'s.npy'))
                got = L
                ok=False
                for a in adm:
                    exp = np.concatenate([np.array(x) for x in a]) if a else np.zeros((0,)+tuple(h['row']))
                    if h['dtype'].endswith('c16'): 
                        exp = np.array([complex(x) for x in np.array(a).ravel()]).reshape((-1,)+tuple(h['row'])) if a else exp
                    if exp.shape==L.shape and np.array_equal(exp.astype(L.dtype), L): ok=True; break
                if not ok: raise AssertionError('content not admissible shape %s adm %s'%(L.shape,[len(a) for a in adm]))
            except Exception as e:
                statsB['bad']+=1
                opk = h['ops'][inprog][0]; prevk = [o[0] for o in h['ops'][lastflush+1:inprog+1]]
                key=(type(e).__name__, opk, tuple(prevk))
                if key not in seenbad and len(seenbad)<12: seenbad.add(key); print('B-FAIL kill',k,ph,'op in progress',h['ops'][inprog],'since flush',prevk, repr(e)[:160])
            shutil.rmtree(d)
print('A', statsA, 'B', statsB)
