import compat, numpy as np, warnings, sys, itertools, scipy.stats as ss
compat.install(); warnings.simplefilter('ignore')
import logging; logging.disable(logging.CRITICAL)
import elfi
from elfi.methods.utils import GMDistribution as GM, weighted_var, compute_ess, normalize_weights
from elfi.utils import get_sub_seed
rs=np.random.RandomState(1); viol=[]
# GM
for it in range(1500):
    d=rs.randint(1,5); k=rs.randint(2 if d>1 else 1,6); means=rs.randn(k,d)*2 if d>1 else rs.randn(k)*2
    w=rs.rand(k)*(rs.rand(k)<0.8); 
    if w.sum()==0: w[0]=1
    if d==1: cov=rs.choice([rs.uniform(0.1,2), None]); covm=np.array([[cov if cov else 1.0]])
    else:
        A=rs.randn(d,d); covm=A@A.T+0.2*np.eye(d); cov=covm if rs.rand()<0.7 else None
        if cov is None: covm=np.eye(d)
    kw={} if cov is None else {'cov':cov}
    n=rs.randint(1,6); x=rs.randn(n,d)*2 if d>1 else rs.randn(n)*2
    got=GM.pdf(x,means,weights=w,**kw); W=w/w.sum()
    ref=sum(W[j]*ss.multivariate_normal.pdf(x.reshape(n,d),np.atleast_1d(means[j]),covm) for j in range(k))
    if not np.allclose(got,ref,rtol=1e-9): viol.append(('gm pdf',d,k,got,ref))
    if not np.allclose(GM.logpdf(x,means,weights=w,**kw),np.log(ref),rtol=1e-9,atol=1e-12): viol.append(('gm logpdf',))
    # single point shapes
    p=GM.pdf(x[0],means,weights=w,**kw)
    if np.ndim(p)!=0 and not (d==1): viol.append(('gm shape',d,np.shape(p)))
    size=rs.randint(1,9); m0=np.asarray(means).reshape(k,-1)[:,0]; lo=np.min(m0[w>0])-rs.uniform(0,1)
    calls=[]
    def cons(z):
        z2=np.asarray(z).reshape(len(z),-1); r=np.where(z2[:,0]>lo,0.0,-np.inf); calls.append(len(z2)); return r
    out=GM.rvs(means,weights=w,size=size,prior_logpdf=cons,random_state=np.random.RandomState(it),**kw)
    if len(out)!=size or not np.all(np.asarray(out).reshape(size,-1)[:,0]>lo): viol.append(('gm rvs',d,size,np.shape(out)))
    # weighted var / ess
    m=rs.randint(2,30); X=rs.randn(m,d); ww=rs.rand(m)+0.01
    V1=ww.sum(); V2=(ww**2).sum(); xb=(ww[:,None]*X).sum(0)/V1; ref=(ww[:,None]*(X-xb)**2).sum(0)/(V1-V2/V1)
    if not np.allclose(weighted_var(X,ww),ref,rtol=1e-10): viol.append(('wvar',))
    if not np.isclose(compute_ess(ww), ww.sum()**2/(ww**2).sum(), rtol=1e-10): viol.append(('ess',))
print('C13 GM etc viol',len(viol)); 
for v in viol[:4]: print(str(v)[:300])
# C15 exhaustive small high
viol=[]; ncalls=0
for high in range(1,6):
    for seed in range(24):
        base=[int(get_sub_seed(seed,i,high)) for i in range(high)]; ncalls+=high
        if len(set(base))!=high or not all(0<=b<high for b in base): viol.append(('distinct/range',high,seed,base))
        for L in range(1,5):
            for seq in itertools.product(range(high),repeat=L):
                cache={}
                for i in seq:
                    ncalls+=1
                    if int(get_sub_seed(seed,i,high,cache=cache))!=base[i]: viol.append(('history',high,seed,seq,i)); break
        for bad in (high, high+3):
            try: get_sub_seed(seed,bad,high); viol.append(('not rejected',high,bad))
            except Exception: pass
print('C15 calls',ncalls,'viol',len(viol)); 
# C18
viol=[]
for it in range(800):
    ar=rs.randint(1,5); bs=rs.randint(1,6); consts=[i for i in range(ar) if rs.rand()<0.3]; 
    inputs=[]; 
    for i in range(ar):
        if i in consts: inputs.append(rs.choice([3.5, 'txt', None]) if rs.rand()<0.5 else np.arange(3)*1.0)   # array constant needs explicit mask
        else: inputs.append(rs.randn(bs) if rs.rand()<0.6 else rs.randn(bs,2))
    if len(consts)==ar: continue
    explicit=[i for i in consts]  # always explicit for arrays
    seen=[]
    def op(*a, kwv=0):
        seen.append(a); s=0.0
        for x in a:
            if isinstance(x,np.ndarray): s+=x.sum()
            elif isinstance(x,float): s+=x
        return s+kwv
    v=elfi.tools.vectorize(op, constants=explicit)
    out=v(*inputs, kwv=2)
    ref=np.array([op(*[inp if i in consts else inp[r] for i,inp in enumerate(inputs)], kwv=2) for r in range(bs)])
    if out.shape!=(bs,) or not np.allclose(out,ref): viol.append(('vectorize',ar,bs,consts,out,ref))
print('C18 vectorize viol',len(viol))
for v in viol[:3]: print(str(v)[:300])
