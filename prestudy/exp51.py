import compat, numpy as np, elfi, warnings, itertools, sys, random
compat.install(); warnings.simplefilter('ignore')
import logging; logging.disable(logging.CRITICAL)
import elfi.client, elfi.clients.native as nat
src=open('exp44.py').read(); ns={'np':np,'elfi':elfi,'itertools':itertools}
exec(src[src.index('class Viol'):src.index('def mkmodel')], ns); SchedClient=ns['SchedClient']; Viol=ns['Viol']
from elfi.methods.bo.acquisition import LCBSC, MaxVar, RandMaxVar, UniformAcquisition
from elfi.methods.bo.gpy_regression import GPyRegression
from elfi.model.extensions import ModelPrior
REC=[]
def mk(wide):
    m=elfi.ElfiModel(name='m')
    if wide: a=elfi.Prior('norm',1,1.5,model=m,name='a'); b=elfi.Prior('norm',0,1.5,model=m,name='b')
    else: a=elfi.Prior('uniform',0,2,model=m,name='a'); b=elfi.Prior('uniform',-1,2,model=m,name='b')
    def sim(a,b,batch_size=1,random_state=None): REC.append(np.column_stack([a,b]).copy()); return np.column_stack([a,b])+0.1*random_state.randn(batch_size,2)
    S=elfi.Simulator(sim,a,b,observed=np.array([[1.5,0.5]]),model=m,name='S'); d=elfi.Distance('euclidean',S,model=m,name='d'); return m
B={'a':(0,2),'b':(-1,1)}
def run(client,cfg,mpb):
    elfi.client.set_client(client); m=mk(cfg['wide']); REC.clear()
    kw=dict(bounds=B,batch_size=cfg['bs'],seed=cfg['seed'],max_parallel_batches=mpb,batches_per_acquisition=cfg['bpa'],acq_noise_var=cfg['noise'],update_interval=cfg['ui'],initial_evidence=cfg['init'])
    if cfg['acq']!='default':
        gp=GPyRegression(['a','b'],bounds=B); prior=ModelPrior(m)
        cls={'maxvar':MaxVar,'randmaxvar':RandMaxVar,'uniform':UniformAcquisition}[cfg['acq']]
        akw=dict(sampler='metropolis',n_samples=40) if cfg['acq']=='randmaxvar' else {}
        kw['target_model']=gp; kw['acquisition_method']=cls(gp,prior=prior,seed=cfg['seed'],**akw) if cls is not UniformAcquisition else cls(gp,prior=prior,seed=cfg['seed'])
        kw.pop('bounds')
    bo=elfi.BayesianOptimization(m['d'],**kw)
    cons=[]; u=bo.update
    def upd(batch,i): cons.append((i,np.column_stack([batch['a'],batch['b']]).copy(),np.array(batch['d']).reshape(-1).copy())); return u(batch,i)
    bo.update=upd
    bo.infer(cfg['n_evidence'],bar=False)
    X=np.array(bo.target_model.X); Y=np.array(bo.target_model.Y)[:,0]
    pre=cfg['init'] if isinstance(cfg['init'],dict) else None
    Xc=np.vstack(([np.column_stack([pre['a'],pre['b']])] if pre else [])+[c[1] for c in cons]); Yc=np.concatenate(([np.asarray(pre['d']).reshape(-1)] if pre else [])+[c[2] for c in cons])
    if not (np.array_equal(X,Xc) and np.array_equal(Y,Yc)): raise Viol(('evidence != consumed',X.shape,Xc.shape))
    if bo.target_model.n_evidence!=len(Xc) or bo.state['n_evidence']!=len(Xc): raise Viol(('n_evidence',bo.target_model.n_evidence,bo.state['n_evidence'],len(Xc)))
    if [c[0] for c in cons]!=list(range(len(cons))): raise Viol(('indices',))
    n_init=bo.n_initial_evidence-bo.n_precomputed_evidence
    acqd=np.vstack([c[1] for c in cons])[max(n_init,0):]
    if len(acqd) and not (np.all(acqd>=[0,-1])&np.all(acqd<=[2,1])): raise Viol(('acquired outside bounds',acqd[(acqd<[0,-1]).any(1)|(acqd>[2,1]).any(1)][:2]))
    return X,Y
rng=random.Random(int(sys.argv[1])); viol=[]; n=0
for it in range(int(sys.argv[2])):
    bs=rng.choice([1,2,3]); cfg=dict(bs=bs,seed=rng.randint(0,10**6),bpa=rng.randint(1,3),noise=rng.choice([0,0.1,{'a':0.2,'b':0.0}]),ui=rng.choice([1,4,10]),wide=rng.random()<0.5,acq=rng.choice(['default','default','maxvar','randmaxvar','uniform']))
    init=rng.choice(['count','zero','pre'])
    if init=='count': cfg['init']=bs*rng.randint(2,5)
    elif init=='zero': cfg['init']=0
    else:
        r=np.random.RandomState(it); k=rng.randint(3,8); cfg['init']={'a':r.uniform(0,2,k),'b':r.uniform(-1,1,k),'d':r.rand(k)}
    if cfg['acq'] in('maxvar','randmaxvar') and init=='zero': cfg['init']=bs*3
    base=(cfg['init'] if isinstance(cfg['init'],int) else len(cfg['init']['d'])); cfg['n_evidence']=base+bs*cfg['bpa']*rng.randint(1,3)+ (bs if rng.random()<0.5 else 0)
    try: ref=run(nat.Client(),cfg,3)
    except Viol as e: viol.append(('ref',{k:(v if not isinstance(v,dict) or k!='init' else 'pre') for k,v in cfg.items()},e.args[0])); continue
    except Exception as e: viol.append(('EXC ref',{k:(v if k!='init' or not isinstance(v,dict) else 'pre') for k,v in cfg.items()},repr(e)[:200])); continue
    for v in range(2):
        c=SchedClient(rng.randint(0,10**6),rng.randint(1,4),rng.choice(['eager','lazy','newest','random']),3)
        try:
            out=run(c,cfg,3); n+=1
            if c.tasks: viol.append(('tasks left',))
            if not (np.array_equal(out[0],ref[0]) and np.array_equal(out[1],ref[1])): viol.append(('evidence differs across schedules',cfg['acq'],c.regime))
        except Viol as e: viol.append(('sched',cfg['acq'],c.regime,e.args[0]))
        except Exception as e: viol.append(('EXC',repr(e)[:200]))
print('runs',n,'viol',len(viol)); seen=set()
for v in viol:
    k=(v[0],str(v[-1])[:30])
    if k not in seen: seen.add(k); print(str(v)[:500])
