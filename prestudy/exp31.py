import compat, numpy as np, elfi
m = elfi.ElfiModel(name='m')
p = elfi.Prior('uniform', 0, 1, model=m, name='p')
def sim(*a, batch_size=1, random_state=None):
    rs = random_state or np.random
    return rs.rand(batch_size) + (a[0] if a else 0)
S = elfi.Simulator(sim, p, name='S')   # no observed data
s = elfi.Summary(lambda x: x, S, name='s')
d = elfi.Discrepancy(lambda x, observed: np.abs(x-observed[0]), s, name='d')
try:
    print(m.generate(2, ['d'], seed=1), m.generate(2, ['d'], seed=1))
except Exception as e: print('rejected', type(e).__name__, e)
def sim2(a, batch_size, random_state): return random_state.rand(batch_size)+a
S.become(elfi.Simulator(sim2, p, model=m))
try: print(m.generate(2, ['d'], seed=1))
except Exception as e: print('strict sim rejected:', type(e).__name__, str(e)[:90])
