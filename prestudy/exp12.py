import compat, numpy as np, elfi
m = elfi.ElfiModel(name='m')
p = elfi.Prior('uniform', 0, 1, model=m, name='p')
s = elfi.Summary(lambda x: x*2, p, name='s')
d = elfi.Discrepancy(lambda x, observed: (x, observed), s, name='d')
try:
    print(m.generate(2, ['d'], seed=1))
    print(m.generate(2, ['d'], seed=1))
    print('s observed:', s.observed, s.observed)
except Exception as e:
    print('rejected:', type(e), e)
