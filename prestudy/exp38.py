import compat, numpy as np, elfi, warnings, random, sys, scipy.stats as ss
warnings.simplefilter('ignore')
import logging; logging.disable(logging.CRITICAL)
from elfi.model.extensions import ModelPrior
FAM = {
 'uniform': dict(n=2, mk=lambda a,b: ss.uniform(a, np.abs(b)+0.5), args=lambda a,b:(a, np.abs(b)+0.5)),
 'norm': dict(n=2, mk=lambda a,b: ss.norm(a, np.abs(b)+0.3), args=lambda a,b:(a, np.abs(b)+0.3)),
 'expon': dict(n=1, mk=lambda a: ss.expon(a), args=lambda a:(a,)),
 'gamma': dict(n=2, mk=lambda a,b: ss.gamma(np.abs(a)+1.0, b), args=lambda a,b:(np.abs(a)+1.0, b)),
 'beta': dict(n=2, mk=lambda a,b: ss.beta(np.abs(a)+0.7, np.abs(b)+0.7), args=lambda a,b:(np.abs(a)+0.7, np.abs(b)+0.7)),
 'lognorm': dict(n=2, mk=lambda a,b: ss.lognorm(np.abs(a)+0.3, b), args=lambda a,b:(np.abs(a)+0.3,b)),
}
# to keep elfi args == scipy args, we pass raw args to both: transformation must happen via operations; simpler: use families whose args can be raw
RAW = {'norm2': ('norm', 2), 'uniform2':('uniform',2), 'expon1':('expon',1), 'cauchy2':('cauchy',2), 'laplace2':('laplace',2), 'logistic2':('logistic',2), 'gumbel_r2':('gumbel_r',2)}
def gen(rng):
    k=rng.randint(1,5); spec=[]
    for i in range(k):
        fam=rng.choice(['norm','uniform','expon','cauchy','laplace','logistic','gumbel_r'])
        n = 1 if fam=='expon' else 2
        args=[]
        for j in range(n):
            if j==n-1 and n==2:   # scale must be positive: constant
                args.append(('c', round(rng.uniform(0.3,2.5),3)))
            elif spec and rng.random()<0.5: args.append(('p', rng.randrange(len(spec))))
            else: args.append(('c', round(rng.uniform(-2,2),3)))
        spec.append((fam,args))
    return spec
def build(spec, names):
    m=elfi.ElfiModel(name='m'); refs=[]
    for (fam,args),nm in zip(spec,names):
        A=[refs[a[1]] if a[0]=='p' else a[1] for a in args]
        refs.append(elfi.Prior(fam,*A,model=m,name=nm))
    return m
def refpdf(spec, X, sel):  # X columns in spec order for selected (closed) subset; others not needed
    out=np.ones(len(X))
    for i,(fam,args) in enumerate(spec):
        if i not in sel: continue
        A=[X[:,a[1]] if a[0]=='p' else a[1] for a in args]
        out*=getattr(ss,fam)(*A).pdf(X[:,i])
    return out
rng=random.Random(int(sys.argv[1])); N=int(sys.argv[2]); viol=[]; nchk=0
for it in range(N):
    spec=gen(rng); k=len(spec)
    perm=list(range(k)); rng.shuffle(perm)
    base=['q%02d'%i for i in range(k)]; names=[base[perm[i]] for i in range(k)]   # names not in spec order
    m=build(spec,names)
    # selection: all sorted / all permuted / ancestrally closed strict subset
    mode=rng.choice(['sorted','perm','subset'])
    if mode=='sorted': sel_names=None; order=sorted(range(k), key=lambda i:names[i])
    elif mode=='perm': order=list(range(k)); rng.shuffle(order); sel_names=[names[i] for i in order]
    else:
        keep=set()
        for i in range(k):
            if rng.random()<0.6 and all(a[0]=='c' or a[1] in keep for a in spec[i][1]): keep.add(i)
        if not keep: keep={0} if all(a[0]=='c' for a in spec[0][1]) else set()
        if not keep: continue
        order=sorted(keep); rng.shuffle(order); sel_names=[names[i] for i in order]
    try:
        P=ModelPrior(m, sel_names)
        n=7; Xfull=np.column_stack([rng.uniform(-3,3)*np.ones(n)+np.array([rng.uniform(-2,2) for _ in range(n)]) for _ in range(k)])
        X=Xfull[:,order]
        ref=refpdf(spec,Xfull,set(order))
        got=P.pdf(X); gotl=P.logpdf(X); nchk+=1
        if not np.allclose(got,ref,rtol=1e-9,atol=1e-300): viol.append(('pdf',mode,spec,names,got[:3],ref[:3]))
        with np.errstate(divide='ignore'):
            if not np.allclose(gotl,np.log(ref),rtol=1e-9,atol=1e-9): viol.append(('logpdf',mode,spec))
        if not np.array_equal(got==0, ref==0): viol.append(('zeroset',mode,spec))
        # shapes
        d=len(order)
        if d>1:
            v=P.pdf(X[0]); assert np.ndim(v)==0 and np.isclose(v,ref[0],rtol=1e-9), 'shape1'
        else:
            v=P.pdf(X[:,0]); assert v.shape==(n,), 'shape1d'
            v0=P.pdf(X[0,0]); assert np.ndim(v0)==0, 'scalar'
        R=P.rvs(5, random_state=np.random.RandomState(rng.randint(0,999)))
        R=R.reshape(5,d)
        # draws positive density: need full point -> only when selection is everything
        if len(order)==k:
            full=np.zeros((5,k)); full[:,order]=R
            if not np.all(refpdf(spec,full,set(order))>0): viol.append(('rvs zero density',mode,spec))
    except AssertionError as e: viol.append((str(e),mode,spec))
    except Exception as e: viol.append(('EXC '+type(e).__name__+str(e)[:100],mode,spec))
print('checked',nchk,'viol',len(viol)); seen=set()
for v in viol:
    if (v[0],v[1]) not in seen: seen.add((v[0],v[1])); print(v)
