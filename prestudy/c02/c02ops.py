import numpy as np, hashlib
LOG=[]
def dig(rs): 
    st=rs.get_state(); return hashlib.sha1(st[1].tobytes()+bytes([st[2]%256])).hexdigest()[:12]
class NumOp:
    """picklable numeric recording op"""
    def __init__(self, name, kind, width=1): self.name=name; self.kind=kind; self.width=width
    def __call__(self, *a, batch_size=None, random_state=None, **k):
        vals=[np.asarray(x,dtype=float) for x in a]
        n = batch_size if batch_size is not None else (len(vals[0]) if vals and vals[0].ndim>0 else 1)
        base = sum((v.reshape(len(v),-1).sum(1) if v.ndim>0 else v) for v in vals) if vals else 0.0
        if self.kind=='sim':
            before=dig(random_state); z=random_state.randn(n,self.width); LOG.append((self.name,id(random_state),before,dig(random_state)))
            return np.asarray(base).reshape(-1,1)+z if np.ndim(base)>0 else base+z
        if self.kind=='sum': return np.asarray(base)*1.5+0.25
        return np.asarray(base)
class RecDist:
    def __init__(self, name, fam): self.name=name; self.fam=fam
    def rvs(self, *p, size=1, random_state=None):
        import scipy.stats as ss
        before=dig(random_state); v=getattr(ss,self.fam).rvs(*p,size=size,random_state=random_state); LOG.append((self.name,id(random_state),before,dig(random_state)))
        return v
def _pdf(self, x, *p, **k):
    import scipy.stats as ss; return getattr(ss,self.fam).pdf(x,*p,**k)
def _logpdf(self, x, *p, **k):
    import scipy.stats as ss; return getattr(ss,self.fam).logpdf(x,*p,**k)
RecDist.pdf=_pdf; RecDist.logpdf=_logpdf
