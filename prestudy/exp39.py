import compat, numpy as np, elfi, warnings, scipy.spatial.distance as sd
compat.install(); warnings.simplefilter('ignore')
import logging; logging.disable(logging.CRITICAL)
def mk():
    m=elfi.ElfiModel(name='m')
    a=elfi.Prior('uniform',0,2,model=m,name='a')
    def sim(a,batch_size=1,random_state=None): return np.column_stack([a+random_state.randn(batch_size), 10*a+5*random_state.randn(batch_size), random_state.randn(batch_size)*0.1])
    S=elfi.Simulator(sim,a,model=m,name='S',observed=np.array([[1.,10.,0.]]))
    s1=elfi.Summary(lambda x:x[:,0],S,model=m,name='s1'); s2=elfi.Summary(lambda x:x[:,1:],S,model=m,name='s2')
    d=elfi.AdaptiveDistance(s1,s2,model=m,name='d')
    return m
# direct: partitions
rs=np.random.RandomState(0)
m=mk(); d=m['d']
for trial in range(200):
    n=rs.randint(1,40); A=rs.randn(n)*3; B=rs.randn(n,2)*[1,50]+[5,-3]
    d.init_state()
    cuts=sorted(set(rs.randint(0,n+1,size=rs.randint(0,5)).tolist()+[0,n]))
    for lo,hi in zip(cuts[:-1],cuts[1:]):
        if hi>lo: d.add_data(A[lo:hi],B[lo:hi])
    ref=np.std(np.column_stack([A,B]),axis=0)
    assert np.allclose(d.state['scale'],ref,rtol=1e-9), (trial, d.state['scale'], ref)
    if np.all(ref>0):
        d.update_distance()
        X=rs.randn(4,3); out=d.generate(with_values={'s1':X[:,0],'s2':X[:,1:]})
        obs=np.array([[1.,10.,0.]])
        e0=sd.cdist(X,obs)[:,0]; e1=np.sqrt((((X-obs)/ref)**2).sum(1))
        assert out.shape==(4,2) and np.allclose(out[:,0],e0) and np.allclose(out[:,1],e1), (trial,out,e0,e1)
print('direct ok')
# in samplers
m=mk()
res=elfi.Rejection(m['d'],batch_size=20,seed=3).sample(10,n_sim=200,bar=False)
print('rejection adaptive', res.outputs['d'].shape, res.threshold)
m=mk()
r=elfi.AdaptiveDistanceSMC(m['d'],batch_size=20,seed=3).sample(15,rounds=3,bar=False)
print('adsmc', r.n_sim, [p.threshold for p in r.populations], [np.round(p.adaptive_distance_w,3) for p in r.populations][-1])
