"""Child process of the C02 check: runs every case of a shard under one variant in a fresh process."""
import json
import os
import sys
import traceback


def main(cases_file, variant, outfile):
    from vmon import core
    core.setup_paths()
    from vmon import compat
    elfi = compat.install()
    import elfi.client
    import elfi.clients.native as nat
    from vmon.props import c02
    from vmon.core import Violation, _through_elfi
    with open(cases_file) as f:
        cases = json.load(f)
    results = []
    client = None
    if variant == 'mp':
        import elfi.clients.multiprocessing as mpc
        client = mpc.Client(num_processes=3)
    try:
        for case in cases:
            try:
                if client is not None:
                    elfi.client.set_client(client)
                results.append({'res': c02.execute(case, client=client, twice=(variant == 'ref'))})
            except Violation as v:
                results.append({'violation': {'key': v.key, 'msg': v.msg, 'witness': None}})
            except Exception as e:
                if _through_elfi(e.__traceback__):
                    results.append({'crash': {'type': type(e).__name__, 'trace': traceback.format_exc()}})
                else:
                    raise
    finally:
        if client is not None:
            client.pool.terminate()
            client.pool.join()
    with open(outfile + '.tmp', 'w') as f:
        json.dump({'variant': variant, 'hashseed': os.environ.get('PYTHONHASHSEED'), 'results': results}, f)
    os.replace(outfile + '.tmp', outfile)


if __name__ == '__main__':
    main(*sys.argv[1:4])
