"""C11 - Bayesian optimisation simulates only inside bounds and trains on what it ran.

(a) direct: fitted GPs x acquisition classes x noise settings x prior/bounds relations;
    contract on every acquire (shape, inside bounds), acquisition gradients vs Richardson.
(b) end-to-end: BayesianOptimization on a small model under the scheduled client;
    update()-history vs target_model.X/.Y, n_evidence, parameters received by the simulator,
    differential over worker schedules (synchronous acquisition).
"""
import numpy as np

from vmon.clients import REGIMES, ScheduledClient
from vmon.contracts import Spec, attached
from vmon.core import Skip, Violation

PROPERTY = 'C11'
LEVEL = 'exploration'
TECHNIQUE = ('runtime monitoring: icontract post-condition on every acquire() of the real acquisition classes (count, inside bounds), recording '
             'simulator + update()-history monitor against the surrogate evidence, schedule-injecting client differential, Richardson check of '
             'acquisition gradients')
LEVEL_TEXT = ('Held on every generated configuration: the real acquisition classes (LCBSC, MaxVar, RandMaxVar with both samplers, ExpIntVar, Uniform) '
              'are driven on fitted GPs with all noise forms and prior/bounds relations, and BayesianOptimization runs end to end under seeded worker '
              'schedules; every acquire() is checked by a contract, the surrogate evidence must equal the consumed (parameters, target) pairs in order, '
              'n_evidence must count them and synchronous acquisition must give the same evidence under every schedule. Sampled, not exhaustive.')
LEVEL_NOTE = ('trusts: the harness model (2 parameters), Richardson differences; initial evidence is drawn from the prior by design and is only checked '
              'against the bounds when the prior support lies inside them; LinAlgError on a degenerate kernel matrix is skipped and counted')
RULE = ('cases = (direct) GP fitted on 8-40 random evidence points in 1-3 d x acquisition class x noise form (none|scalar|per-parameter|zero) x prior '
        'support (equal to | wider than | inside the bounds) x optimum inside/on a face; (end-to-end) batch size 1-3 x batches_per_acquisition 1-3 x '
        'initial evidence (count|zero|precomputed dict) x update interval x acquisition (default LCBSC|MaxVar|RandMaxVar|Uniform) x 2 worker schedules; '
        'distinct = hash of the case; non-trivial = acquisition on a fitted GP / end-to-end run with >= 1 acquired batch')
ASSUMPTIONS = ['bounds of the end-to-end model: a in (0,2), b in (-1,1)']
CONFIG = {
    'quick': {'shards': 16, 'cases': 4, 'timeout': 900, 'floor': 30},
    'thorough': {'shards': 32, 'cases': 60, 'timeout': 3400, 'floor': 900},
}
REQUIRED = ['e2e_surrogate_order_permuted', 'randmaxvar_large_batches', 'randmaxvar_batch_refused', 'bounds_dict_not_in_parameter_order', 'contract_acquire', 'acq_LCBSC', 'acq_MaxVar', 'acq_RandMaxVar_metropolis', 'acq_RandMaxVar_nuts', 'acq_ExpIntVar', 'acq_UniformAcquisition',
            'acq_gradient_checked', 'e2e_runs', 'e2e_scheduled_runs', 'e2e_evidence_compared', 'e2e_acquired_points_checked', 'noise_dict', 'noise_scalar',
            'prior_wider_than_bounds', 'prior_inside_bounds', 'init_precomputed', 'init_zero', 'init_count']

B = {'a': (0.0, 2.0), 'b': (-1.0, 1.0)}
REC = []


def gen_cases(ctx):
    rng = ctx.rng
    for i in range(ctx.ncases):
        if i % 2 == 0:
            d = int(rng.integers(1, 4))
            yield {'kind': 'direct', 'd': d, 'seed': int(rng.integers(0, 2 ** 31 - 1)), 'prior': str(rng.choice(['equal', 'wider', 'inside'])),
                   'n': int(rng.integers(8, 41)), 'corner': bool(rng.random() < 0.5)}
        else:
            bs = int(rng.choice([1, 2, 3]))
            cfg = {'kind': 'e2e', 'bs': bs, 'seed': int(rng.integers(0, 10 ** 6)), 'bpa': int(rng.integers(1, 4)),
                   'noise': [0, 0.1, {'a': 0.2, 'b': 0.0}][int(rng.integers(3))], 'ui': int(rng.choice([1, 4, 10])),
                   'prior': str(rng.choice(['equal', 'wider', 'inside'])),
                   'acq': str(rng.choice(['default', 'default', 'maxvar', 'randmaxvar', 'uniform'])), 'mpb': int(rng.integers(1, 5))}
            init = str(rng.choice(['count', 'zero', 'pre']))
            if cfg['acq'] in ('maxvar', 'randmaxvar') and init == 'zero':
                init = 'count'
            if init == 'count':
                cfg['init'] = bs * int(rng.integers(2, 6))
            elif init == 'zero':
                cfg['init'] = 0
            else:
                cfg['init'] = {'n': int(rng.integers(3, 9)), 'seed': int(rng.integers(0, 10 ** 6))}
            base = cfg['init'] if isinstance(cfg['init'], int) else cfg['init']['n']
            cfg['n_evidence'] = base + bs * cfg['bpa'] * int(rng.integers(1, 4)) + (bs if rng.random() < 0.5 else 0)
            cfg['schedules'] = [{'seed': int(rng.integers(0, 10 ** 6)), 'cores': int(rng.integers(1, 5)), 'regime': str(rng.choice(REGIMES))}
                                for _ in range(2)]
            yield cfg


def richardson(f, x, h=1e-4):
    g = np.zeros(len(x))
    for i in range(len(x)):
        e = np.zeros(len(x))
        e[i] = h
        d1 = (f(x + e) - f(x - e)) / (2 * h)
        d2 = (f(x + 2 * e) - f(x - 2 * e)) / (4 * h)
        g[i] = (4 * d1 - d2) / 3
    return g


def acquire_post(result, self, n, t=None):
    """Post-condition of every acquire(n, t): exactly n points, all inside the surrogate's bounds."""
    pts = np.asarray(result)
    d = self.model.input_dim
    if pts.shape != (n, d):
        return 'acquire(%d) returned shape %s, expected (%d, %d)' % (n, pts.shape, n, d)
    lo = np.array([b[0] for b in self.model.bounds])
    hi = np.array([b[1] for b in self.model.bounds])
    if not (np.all(pts >= lo) and np.all(pts <= hi)):
        bad = pts[(pts < lo).any(1) | (pts > hi).any(1)][:2]
        return '%s.acquire returned points outside the bounds: %s (bounds %s..%s)' % (type(self).__name__, bad.tolist(), lo.tolist(), hi.tolist())
    if not np.all(np.isfinite(pts)):
        return 'acquire returned non-finite points'
    return True


def _contracts(ctx):
    return [Spec('elfi.methods.bo.acquisition', 'acquire', acquire_post, 'C11', key='acquire-contract', owner=c)
            for c in ('AcquisitionBase', 'MaxVar', 'RandMaxVar', 'ExpIntVar', 'UniformAcquisition')]


def _priors(elfi, m, names, lo, hi, relation):
    for i, n in enumerate(names):
        w = hi[i] - lo[i]
        if relation == 'wider':
            elfi.Prior('norm', (lo[i] + hi[i]) / 2, w, model=m, name=n)
        elif relation == 'inside':
            elfi.Prior('uniform', lo[i] + 0.2 * w, 0.5 * w, model=m, name=n)
        else:
            elfi.Prior('uniform', lo[i], w, model=m, name=n)


def run_direct(ctx, case):
    import elfi
    from elfi.methods.bo.acquisition import LCBSC, ExpIntVar, MaxVar, RandMaxVar, UniformAcquisition
    from elfi.methods.bo.gpy_regression import GPyRegression
    from elfi.model.extensions import ModelPrior
    rs = np.random.RandomState(case['seed'])
    d = case['d']
    names = ['p%d' % i for i in range(d)]
    lo = rs.uniform(-2, 0, d)
    hi = lo + rs.uniform(1, 3, d)
    # the bounds dictionary is written in an arbitrary key order (a dict has no parameter order of its own)
    bounds = {names[i]: (float(lo[i]), float(hi[i])) for i in rs.permutation(d)}
    m = elfi.ElfiModel(name='m')
    _priors(elfi, m, names, lo, hi, case['prior'])
    ctx.event({'wider': 'prior_wider_than_bounds', 'inside': 'prior_inside_bounds', 'equal': 'prior_equal_bounds'}[case['prior']])
    prior = ModelPrior(m)
    gp = GPyRegression(names, bounds=bounds)
    N = case['n']
    X = rs.uniform(lo, hi, (N, d))
    opt = np.where(rs.rand(d) < 0.5, lo, hi) if case['corner'] else rs.uniform(lo, hi)
    Y = (np.sum((X - opt) ** 2, 1) + 0.2 * rs.randn(N))[:, None]
    try:
        gp.update(X, Y, optimize=True)
    except np.linalg.LinAlgError:
        raise Skip('numerically_degenerate')
    settings = [
        (LCBSC, {'noise_var': float(rs.choice([0.1, 1.0]))}, 'noise_scalar'),
        (LCBSC, {'noise_var': {n: float(rs.choice([0, 0.5])) for n in names}}, 'noise_dict'),
        (LCBSC, {'noise_var': 0}, 'noise_zero'),
        (LCBSC, {}, 'noise_none'),
        (MaxVar, {'noise_var': float(rs.choice([0, 0.3]))}, 'noise_scalar'),
        (RandMaxVar, {'sampler': 'metropolis', 'n_samples': 40}, 'noise_none'),
        (RandMaxVar, {'sampler': 'nuts', 'n_samples': 20, 'warmup': 10}, 'noise_none'),
        (ExpIntVar, {'d_grid': 0.5}, 'noise_none'),
        (UniformAcquisition, {'noise_var': {n: float(rs.choice([0, 0.4])) for n in names}}, 'noise_dict'),
    ]
    with attached(ctx, *_contracts(ctx)):
        for cls, kw, noise_kind in settings:
            if cls is ExpIntVar and d > 2:
                continue
            label = cls.__name__ + ('_' + kw['sampler'] if 'sampler' in kw else '')
            try:
                acq = cls(gp, prior=prior, seed=int(rs.randint(1000)), **kw)
                n = int(rs.randint(1, 6))
                if cls is RandMaxVar and rs.rand() < 0.5:
                    # up to and beyond what the sampler keeps after its warm-up: exactly n points or a refusal, never fewer
                    n = int(rs.randint(1, kw['n_samples'] + 2))
                    ctx.event('randmaxvar_large_batches')
                try:
                    acq.acquire(n, t=int(rs.randint(0, 5)))
                except ValueError as e:
                    if 'The number of acquisitions' not in str(e):
                        raise
                    ctx.event('randmaxvar_batch_refused')
                ctx.event('acq_' + label)
                ctx.event(noise_kind)
                if cls in (LCBSC, MaxVar):
                    x = rs.uniform(lo + 0.05 * (hi - lo), hi - 0.05 * (hi - lo))

                    def f(z):
                        return float(np.ravel(acq.evaluate(z, 2))[0])
                    g = np.ravel(acq.evaluate_gradient(x, 2))
                    num = richardson(f, x)
                    ctx.event('acq_gradient_checked')
                    if np.all(np.isfinite(num)) and not np.allclose(g, num, rtol=1e-3, atol=1e-5 * (1 + np.abs(num).max())):
                        raise Violation('acquisition-gradient', '%s.evaluate_gradient %r, Richardson difference of evaluate %r' % (cls.__name__, g, num),
                                        {'x': x, 'prior': case['prior']})
            except np.linalg.LinAlgError:
                ctx.skips['numerically_degenerate'] += 1
            except ValueError as e:
                # NUTS legitimately refuses a target whose support it cannot enter from the start point with any step size
                if 'NUTS: Cannot find acceptable stepsize' in str(e):
                    ctx.skips['nuts_no_acceptable_stepsize'] += 1
                else:
                    raise
    ctx.nontrivial(True)
    ctx.distinct('direct_config', 'd%d|%s|corner%s' % (d, case['prior'], case['corner']))


def sim(a, b, batch_size=1, random_state=None):
    REC.append(np.column_stack([a, b]).copy())
    return np.column_stack([a, b]) + 0.1 * random_state.randn(batch_size, 2)


def _mk(elfi, relation):
    m = elfi.ElfiModel(name='m')
    _priors(elfi, m, ['a', 'b'], [B['a'][0], B['b'][0]], [B['a'][1], B['b'][1]], relation)
    S = elfi.Simulator(sim, m['a'], m['b'], observed=np.array([[1.5, 0.5]]), model=m, name='S')
    elfi.Distance('euclidean', S, model=m, name='d')
    return m


def _run_bo(ctx, client, cfg, mpb):
    import elfi
    import elfi.client
    from elfi.methods.bo.acquisition import MaxVar, RandMaxVar, UniformAcquisition
    from elfi.methods.bo.gpy_regression import GPyRegression
    from elfi.model.extensions import ModelPrior
    elfi.client.set_client(client)
    m = _mk(elfi, cfg['prior'])
    del REC[:]
    init = cfg['init']
    pre = None
    if isinstance(init, dict):
        r = np.random.RandomState(init['seed'])
        pre = {'a': r.uniform(0, 2, init['n']), 'b': r.uniform(-1, 1, init['n']), 'd': r.rand(init['n'])}
        init = pre
    Bx = dict(reversed(list(B.items()))) if cfg['seed'] % 2 else dict(B)      # key order of the user's bounds dict varies
    ctx.event('bounds_dict_not_in_parameter_order', bool(cfg['seed'] % 2))
    kw = dict(bounds=Bx, batch_size=cfg['bs'], seed=cfg['seed'], max_parallel_batches=mpb, batches_per_acquisition=cfg['bpa'],
              acq_noise_var=cfg['noise'], update_interval=cfg['ui'], initial_evidence=init)
    order = ['a', 'b']
    if cfg['acq'] != 'default':
        if (cfg['seed'] // 2) % 2:
            order = ['b', 'a']           # a user-supplied surrogate may list the parameters in its own order
        ctx.event('e2e_surrogate_order_permuted', order == ['b', 'a'])
        gp = GPyRegression(order, bounds=Bx)
        prior = ModelPrior(m, parameter_names=order)
        cls = {'maxvar': MaxVar, 'randmaxvar': RandMaxVar, 'uniform': UniformAcquisition}[cfg['acq']]
        akw = dict(sampler='metropolis', n_samples=40) if cfg['acq'] == 'randmaxvar' else {}
        kw['target_model'] = gp
        kw['acquisition_method'] = cls(gp, prior=prior, seed=cfg['seed'], **akw)
        kw.pop('bounds')
    bo = elfi.BayesianOptimization(m['d'], **kw)
    cons = []
    upd = bo.update

    def rec_update(batch, i):
        cons.append((i, np.column_stack([batch[order[0]], batch[order[1]]]).copy(), np.array(batch['d']).reshape(-1).copy()))
        return upd(batch, i)
    bo.update = rec_update
    bo.infer(cfg['n_evidence'], bar=False)
    X = np.array(bo.target_model.X)
    Y = np.array(bo.target_model.Y)[:, 0]
    Xc = np.vstack(([np.column_stack([pre[order[0]], pre[order[1]]])] if pre else []) + [c[1] for c in cons])
    Yc = np.concatenate(([np.asarray(pre['d']).reshape(-1)] if pre else []) + [c[2] for c in cons])
    ctx.event('e2e_evidence_compared')
    if not (X.shape == Xc.shape and np.array_equal(X, Xc) and np.array_equal(Y, Yc)):
        raise Violation('evidence-not-consumed-pairs', 'surrogate evidence (%s rows) is not the sequence of precomputed + consumed (parameters, target) pairs (%s rows)' % (
            X.shape[0], Xc.shape[0]), {'first_diff_row': int(np.argmax((X[:min(len(X), len(Xc))] != Xc[:min(len(X), len(Xc))]).any(1))) if len(X) and len(Xc) else None})
    if bo.target_model.n_evidence != len(Xc) or bo.state['n_evidence'] != len(Xc):
        raise Violation('n_evidence', 'n_evidence: surrogate %s, state %s, consumed+precomputed %s' % (bo.target_model.n_evidence, bo.state['n_evidence'], len(Xc)))
    if [c[0] for c in cons] != list(range(len(cons))):
        raise Violation('consumed-indices', 'batches consumed out of order: %s' % [c[0] for c in cons][:20])
    n_init = bo.n_initial_evidence - bo.n_precomputed_evidence
    lo, hi = np.array([B['a'][0], B['b'][0]]), np.array([B['a'][1], B['b'][1]])
    back = [order.index('a'), order.index('b')]          # consumed columns are in the surrogate's order; bounds below are (a, b)
    consumed_pts = (np.vstack([c[1] for c in cons]) if cons else np.zeros((0, 2)))[:, back]
    acqd = consumed_pts[max(n_init, 0):]
    simulated = np.vstack(REC) if REC else np.zeros((0, 2))
    sim_after = simulated[max(n_init, 0):]
    to_check = [acqd, sim_after] + ([consumed_pts, simulated] if cfg['prior'] != 'wider' else [])
    for pts in to_check:
        ctx.event('e2e_acquired_points_checked', len(pts))
        if len(pts) and not (np.all(pts >= lo) and np.all(pts <= hi)):
            bad = pts[(pts < lo).any(1) | (pts > hi).any(1)][:2]
            raise Violation('simulated-outside-bounds', 'parameters outside the bounds were simulated/consumed: %s' % bad.tolist(), {'acq': cfg['acq']})
    return X, Y, len(acqd)


def run_e2e(ctx, cfg):
    import elfi.client
    import elfi.clients.native as nat
    ctx.event({'wider': 'prior_wider_than_bounds', 'inside': 'prior_inside_bounds', 'equal': 'prior_equal_bounds'}[cfg['prior']])
    ctx.event('init_' + ('precomputed' if isinstance(cfg['init'], dict) else ('zero' if cfg['init'] == 0 else 'count')))
    ctx.event('noise_dict' if isinstance(cfg['noise'], dict) else 'noise_scalar')
    try:
        with attached(ctx, *_contracts(ctx)):
            try:
                ref = _run_bo(ctx, nat.Client(), cfg, cfg['mpb'])
                ctx.event('e2e_runs')
                for sch in cfg['schedules']:
                    c = ScheduledClient(sch['seed'], sch['cores'], sch['regime'], cfg['mpb'], prop='C11')
                    out = _run_bo(ctx, c, cfg, cfg['mpb'])
                    ctx.event('e2e_scheduled_runs')
                    if c.tasks:
                        raise Violation('tasks-left-in-client', '%d tasks left in the client after infer returned' % len(c.tasks))
                    if not (np.array_equal(out[0], ref[0]) and np.array_equal(out[1], ref[1])):
                        raise Violation('evidence-differs-across-schedules', 'synchronous acquisition gave different evidence under schedule %s '
                                        '(acquisition %s)' % (sch['regime'], cfg['acq']), {'schedule': sch})
                    ctx.distinct('interleaving', repr(c.interleaving()))
            except np.linalg.LinAlgError:
                raise Skip('numerically_degenerate')
        ctx.nontrivial(ref[2] > 0)
        ctx.distinct('e2e_config', '%s|%s|bs%d|bpa%d' % (cfg['acq'], cfg['prior'], cfg['bs'], cfg['bpa']))
    finally:
        elfi.client.set_client(nat.Client())


def run_case(ctx, case):
    if case['kind'] == 'direct':
        run_direct(ctx, case)
    else:
        run_e2e(ctx, case)
