"""C02 - Seeded runs are pure functions of (model, seed, configuration).

Differential monitor over process histories, global-RNG states, node insertion orders, hash
seeds, entry points and clients (result digests must be bit-identical), a generator-discipline
monitor fed by recording operations (one generator per batch, chain continuity, fixed
topological order) and a session-wide table (seed, batch index) -> initial generator state
that must be a function and injective in the batch index.
"""
import hashlib
import json
import os
import subprocess
import sys
import tempfile
import time

import numpy as np

from vmon import models
from vmon.core import Violation, child_env, PYTHON, ROOT

PROPERTY = 'C02'
LEVEL = 'exploration'
TECHNIQUE = ('runtime monitoring: bit-level result digests compared across fresh processes, hash seeds, global-RNG states, process histories, node '
             'insertion orders, BatchHandler index histories, entry points and the real multiprocessing client; recording operations feed a '
             'generator-discipline monitor (one generator per batch, chain continuity, fixed order, (seed,index)->state table)')
LEVEL_TEXT = ('Held on every generated model spec and variant: the same (spec, seed, batch size/index, outputs) is executed by the real elfi code in '
              'a fresh reference process and under a dozen perturbations; every output must be bit-identical and the recording operations must '
              'observe a single generator per batch whose initial state depends only on (seed, batch index). Specs and perturbations are sampled.')
LEVEL_NOTE = ('trusts: sha256 of array bytes/dtype/shape as identity of results; across worker processes only results are compared (equal outputs '
              'imply equal draws); unnamed nodes are out of scope (random names by design)')
RULE = ('cases = inference-model spec with >= 2 mutually independent stochastic nodes whose alphabetical order differs from their creation order x '
        'seed x batch size, each executed as: fresh-process reference; after reseeding/consuming np.random; after unrelated generate/Rejection/SMC '
        'runs; rebuilt with reversed and random node creation orders; through one BatchHandler with decreasing/repeated/jumping indices; '
        'PYTHONHASHSEED 1, 2, random in child processes; multiprocessing client; same sampler object twice; entry-point agreement (sampler batch i = '
        'BatchHandler.compute(i) = generate for i=0); distinct = hash of the case; non-trivial = >= 2 stochastic nodes and >= 1 non-reference variant ran')
ASSUMPTIONS = ['importing elfi costs seconds per process: fresh-process isolation is per (variant, shard), in-process history variants run inside the worker']
CONFIG = {
    'quick': {'shards': 16, 'cases': 3, 'timeout': 900, 'floor': 24, 'case_timeout': 0},
    'thorough': {'shards': 32, 'cases': 25, 'timeout': 3400, 'floor': 400, 'case_timeout': 0},
}
REQUIRED = ['seed_zero_cases', 'variants_compared', 'digests_compared', 'discipline_batches_checked', 'init_state_table_entries', 'variant_fresh_process',
            'variant_global_rng', 'variant_history', 'variant_order_reversed', 'variant_order_random', 'variant_bh_history', 'variant_names_low', 'variant_names_high', 'specs_with_prefix_related_names', 'variant_hashseed',
            'variant_multiprocessing', 'variant_same_sampler_twice', 'entry_point_agreements', 'specs_with_reorderable_nodes']

CHILD_VARIANTS = ['ref', 'hash1', 'hash2', 'hashrandom', 'mp']


# ------------------------------------------------------------------ spec generation
def gen_spec(rng):
    while True:
        spec = models.gen_spec(rng, max_params=3, flavours=('cont', 'quant'))
        indep = [p['name'] for p in spec['params'] if not p.get('hier')]
        created = [p['name'] for p in spec['params']]
        if len(indep) >= 2 and [n for n in created if n in indep] != sorted(indep):
            if rng.random() < 0.5:
                # two independent stochastic nodes whose names are related by a prefix ('p0' and 'p0_a'): the private constants elfi
                # creates for their arguments are then named '_p0_<random>' and '_p0_a_<random>'
                a, b = sorted(indep)[:2]
                # names that sort before elfi's own instruction nodes ('_batch_size', '_random_state'): 'a0' and 'a0_b'
                ren = {a: 'a0', b: 'a0_b'}
                for p in spec['params']:
                    p['name'] = ren.get(p['name'], p['name'])
                    p['args'] = [({'ref': ren.get(x['ref'], x['ref'])} if isinstance(x, dict) else x) for x in p['args']]
                spec['prefix_pair'] = ['a0', 'a0_b']
                created2 = [p['name'] for p in spec['params']]
                indep2 = [p['name'] for p in spec['params'] if not p.get('hier')]
                if [n for n in created2 if n in indep2] == sorted(indep2):
                    spec['params'] = spec['params'][::-1] if not any(p.get('hier') for p in spec['params']) else spec['params']
            return spec


def gen_cases(ctx):
    rng = ctx.rng
    for _ in range(ctx.ncases):
        spec = gen_spec(rng)
        names = [p['name'] for p in spec['params']]
        # a random creation order different from the given one (build() makes referenced parents first)
        perm = [str(x) for x in rng.permutation(names)]
        # edge-of-range seeds are legitimate integer seeds too (0 is falsy, 2**32-1 is the largest RandomState accepts)
        seed = int(rng.choice([0, 0, 1, 2 ** 31 - 1, 2 ** 32 - 1])) if rng.random() < 0.3 else int(rng.integers(0, 2 ** 31 - 1))
        yield {'spec': spec, 'seed': seed, 'bs': int(rng.choice([1, 4, 9])),
               'order_random': perm, 'k': int(rng.integers(1, 97)),
               'other': models.gen_spec(rng), 'bh_indices': [int(x) for x in rng.choice(5, size=8)] }


# ------------------------------------------------------------------ one execution of a case (any process)
def digest(res, names=None):
    h = hashlib.sha256()
    for n in sorted(names if names is not None else res):
        a = np.asarray(res[n])
        h.update(n.encode())
        h.update(str(a.dtype).encode())
        h.update(str(a.shape).encode())
        h.update(np.ascontiguousarray(a).tobytes())
    return h.hexdigest()[:20]


def _batches_from_log(log):
    """Split the recording log into batches (a batch ends with the simulator entry)."""
    out, cur = [], []
    for e in log:
        cur.append(e)
        if e['node'] == 'S':
            out.append(cur)
            cur = []
    return out, cur


def _discipline(log, where):
    """One generator object per batch, chain continuity, returns [(batch_index, init_state, order)]."""
    batches, rest = _batches_from_log(log)
    res = []
    for b in batches:
        if len({e['rs'] for e in b}) != 1:
            raise Violation('several-generators-in-batch', '%s: stochastic nodes of one batch drew from %d different generator objects' % (
                where, len({e['rs'] for e in b})), {'nodes': [e['node'] for e in b]})
        for x, y in zip(b, b[1:]):
            if x['after'] != y['before']:
                raise Violation('generator-chain-broken', '%s: node %s did not see the generator state node %s left' % (where, y['node'], x['node']),
                                {'nodes': [e['node'] for e in b]})
        res.append((b[-1]['batch_index'], b[0]['before'], [e['node'] for e in b]))
    return res


def execute(case, order=None, bh_indices=None, twice=False, client=None):
    """Run everything that is compared. Returns plain data."""
    import elfi
    import elfi.client
    from elfi.model.elfi_model import ComputationContext
    spec, seed, bs = case['spec'], case['seed'], case['bs']
    m = models.build(spec, order=order, sim_meta=True)
    names = models.param_names(spec) + ['S'] + [s['name'] for s in spec['summaries']] + ['d']
    out = {'table': [], 'orders': []}
    inproc = client is None
    models.RECORD['on'] = inproc
    try:
        models.reset_log()
        res = m.generate(bs, names, seed=seed)
        out['gen'] = digest(res, names)
        if inproc:
            for bi, init, order_seen in _discipline(list(models.LOG), 'generate'):
                out['table'].append([seed, bi, init])
                out['orders'].append(order_seen)
        # one long-lived BatchHandler
        cctx = ComputationContext(batch_size=bs, seed=seed)
        bh = elfi.client.BatchHandler(m, cctx, output_names=names)
        got = {}
        for i in (bh_indices or [0, 1, 2, 3, 4]):
            models.reset_log()
            d = digest(bh.compute(i), names)
            if i in got and got[i] != d:
                raise Violation('batch-not-reproducible-in-handler', 'BatchHandler.compute(%d) returned different values when repeated' % i)
            got[i] = d
            if inproc:
                for bi, init, order_seen in _discipline(list(models.LOG), 'compute(%d)' % i):
                    if bi != i:
                        raise Violation('wrong-batch-index-in-meta', 'compute(%d) ran with meta batch_index %s' % (i, bi))
                    out['table'].append([seed, bi, init])
                    out['orders'].append(order_seen)
        out['bh'] = {str(i): got[i] for i in sorted(got)}
        # samplers
        models.reset_log()
        rej = elfi.Rejection(m['d'], batch_size=bs, seed=seed, output_names=['S'])
        consumed = []
        upd = rej.update

        def rec(batch, bi):
            consumed.append((bi, digest(batch, [n for n in names if n in batch])))
            return upd(batch, bi)
        rej.update = rec
        r = rej.sample(4, n_sim=bs * 5, bar=False)
        out['rej'] = digest(r.outputs) + '|%s|%s' % (r.n_sim, r.threshold)
        out['rej_batches'] = {str(bi): dg for bi, dg in consumed}
        out['rej_names'] = [n for n in names if n in rej.output_names or n == 'd']
        if inproc:
            for bi, init, order_seen in _discipline(list(models.LOG), 'Rejection'):
                out['table'].append([seed, bi, init])
                out['orders'].append(order_seen)
        if twice:
            del consumed[:]
            r2 = rej.sample(4, n_sim=bs * 5, bar=False)
            out['rej_again'] = digest(r2.outputs) + '|%s|%s' % (r2.n_sim, r2.threshold)
        models.RECORD['on'] = False
        smc = elfi.SMC(m['d'], batch_size=max(bs, 4), seed=seed)
        r = smc.sample(6, quantiles=[0.6, 0.6, 0.6], bar=False)
        out['smc'] = digest(r.outputs) + '|%s|%s|%s' % (r.n_sim, r.threshold, digest({'w': r.weights}))
        if twice:
            smc2 = elfi.SMC(m['d'], batch_size=max(bs, 4), seed=seed)
            r = smc2.sample(6, quantiles=[0.6, 0.6, 0.6], bar=False)
            out['smc_again'] = digest(r.outputs) + '|%s|%s|%s' % (r.n_sim, r.threshold, digest({'w': r.weights}))
        # entry points: the batches a sampler consumed vs compute(i) restricted to the same outputs
        sub = [n for n in names if n in rej.output_names]
        bh2 = elfi.client.BatchHandler(m, ComputationContext(batch_size=bs, seed=seed), output_names=sub)
        out['compute_batches'] = {str(i): digest(bh2.compute(i), sub) for i in range(5)}
        out['generate0'] = digest(m.generate(bs, sub, seed=seed), sub)
    finally:
        models.RECORD['on'] = False
    return out


COMPARED = ['gen', 'bh', 'rej', 'smc', 'rej_batches', 'compute_batches', 'generate0']


def compare(ctx, ref, got, variant, case):
    ctx.event('variants_compared')
    for k in COMPARED:
        a, b = ref.get(k), got.get(k)
        if isinstance(a, dict):
            common = set(a) & set(b)
            ctx.event('digests_compared', len(common))
            bad = [i for i in sorted(common) if a[i] != b[i]]
            if bad:
                raise Violation('result-differs', 'variant %s: %s differs from the fresh-process reference for batch indices %s' % (variant, k, bad[:5]),
                                {'variant': variant, 'field': k})
        else:
            ctx.event('digests_compared')
            if a != b:
                raise Violation('result-differs', 'variant %s: %s differs from the fresh-process reference (%s vs %s)' % (variant, k, b, a),
                                {'variant': variant, 'field': k})


def check_entry_points(ctx, res, variant):
    """sampler batch i == BatchHandler.compute(i) (== generate for i = 0)."""
    for i, dg in res['rej_batches'].items():
        if i in res['compute_batches']:
            ctx.event('entry_point_agreements')
            if dg != res['compute_batches'][i]:
                raise Violation('entry-points-disagree', 'variant %s: batch %s as consumed by Rejection differs from BatchHandler.compute(%s)' % (variant, i, i))
    ctx.event('entry_point_agreements')
    if res['generate0'] != res['compute_batches']['0']:
        raise Violation('entry-points-disagree', 'variant %s: generate(seed) differs from BatchHandler.compute(0)' % variant)
    if 'rej_again' in res:
        ctx.event('variant_same_sampler_twice')
        if res['rej_again'] != res['rej']:
            raise Violation('same-sampler-twice-differs', 'variant %s: the same Rejection object sampled twice with the same objective gave different results' % variant)
        if res.get('smc_again') != res['smc']:
            raise Violation('same-sampler-twice-differs', 'variant %s: a second SMC run with the same seed in the same process gave different results' % variant)


def check_discipline(ctx, table, results, spec):
    """(seed, batch index) -> init state must be a function, injective in the index; order fixed and topological."""
    by = {}
    for seed, bi, init in table:
        ctx.event('init_state_table_entries')
        by.setdefault((seed, bi), set()).add(init)
    for key, vals in by.items():
        if len(vals) > 1:
            raise Violation('init-state-not-a-function', 'batch generator initial state for (seed, batch index)=%s took %d different values '
                            'across histories / entry points / variants' % (key, len(vals)))
    seeds = {k[0] for k in by}
    for s in seeds:
        inits = [(k[1], list(v)[0]) for k, v in by.items() if k[0] == s]
        if len({i for _b, i in inits}) != len(inits):
            raise Violation('init-state-not-injective', 'two different batch indices of seed %s start from the same generator state' % s)
    orders = {tuple(o) for r in results for o in r['orders']}
    ctx.event('discipline_batches_checked', sum(len(r['orders']) for r in results))
    if len(orders) > 1:
        raise Violation('execution-order-varies', 'stochastic nodes drew in different orders across variants: %s' % sorted(orders)[:3])
    pos = {n: i for i, n in enumerate(next(iter(orders)))} if orders else {}
    for p in spec['params']:
        for a in p['args']:
            if isinstance(a, dict) and pos and pos[a['ref']] > pos[p['name']]:
                raise Violation('order-not-topological', 'node %s drew before its parent %s' % (p['name'], a['ref']))


# ------------------------------------------------------------------ shard driver
def _spawn(cases_file, variant, outfile, hashseed):
    env = child_env()
    env['PYTHONHASHSEED'] = hashseed
    return subprocess.Popen([PYTHON, '-m', 'vmon.c02_child', cases_file, variant, outfile], cwd=ROOT, env=env,
                            stdout=subprocess.DEVNULL, stderr=open(outfile + '.err', 'w'))


def run_shard(ctx):
    import elfi
    import elfi.client
    import elfi.clients.native as nat
    cases = list(gen_cases(ctx))
    tmp = tempfile.mkdtemp(prefix='c02-')
    cf = os.path.join(tmp, 'cases.json')
    with open(cf, 'w') as f:
        json.dump(cases, f)
    hs = {'ref': '0', 'hash1': '1', 'hash2': '2', 'hashrandom': 'random', 'mp': '0'}
    procs = {v: _spawn(cf, v, os.path.join(tmp, v + '.json'), hs[v]) for v in CHILD_VARIANTS}
    # in-process variants meanwhile
    inproc = []
    for ci, case in enumerate(cases):
        res = {}
        try:
            np.random.seed(case['k'])
            np.random.rand(case['k'] % 13)
            res['global_rng'] = execute(case)
            # unrelated history through the same client and process
            other = models.build(case['other'], name='other')
            other.generate(3, seed=5)
            other.generate(2)
            elfi.Rejection(other['d'], batch_size=7, seed=(case['seed'] + 1) % (2 ** 31)).sample(3, n_sim=21, bar=False)
            elfi.SMC(other['d'], batch_size=10, seed=11).sample(5, quantiles=[0.5, 0.5], bar=False)
            # ... and through the seed utilities other code in the process uses (an external-operation batch, a single derived seed)
            from elfi.utils import get_sub_seed
            get_sub_seed(case['k'] + 17, 0)
            try:
                elfi.tools.external_operation('echo {seed}')(random_state=np.random.RandomState(case['k']))
            except Exception:
                pass
            res['history'] = execute(case, twice=True)
            created = [p['name'] for p in case['spec']['params']]
            res['order_reversed'] = execute(case, order=created[::-1])
            res['order_random'] = execute(case, order=case['order_random'])
            res['bh_history'] = execute(case, bh_indices=sorted(case['bh_indices'], reverse=True) + case['bh_indices'])
            # the random suffixes of automatically named private constants must not matter: force them low / high
            import elfi.model.elfi_model as em
            saved = em.random_name
            try:
                for label, start in (('names_low', 0x0000), ('names_high', 0xfff0 - 0x0400)):
                    counter = iter(range(start, start + 0x0400))
                    em.random_name = lambda length=4, prefix='', _c=counter: prefix + ('%04x' % next(_c))[:max(length, 4)]
                    res[label] = execute(case)
            finally:
                em.random_name = saved
            inproc.append(res)
        except Violation as v:
            inproc.append(v)
        except BaseException as e:  # noqa
            inproc.append(e)
    # collect children
    child = {}
    deadline = time.time() + ctx.cfg['timeout'] * 0.8
    for v, p in procs.items():
        try:
            p.wait(timeout=max(5, deadline - time.time()))
        except subprocess.TimeoutExpired:
            p.kill()
        path = os.path.join(tmp, v + '.json')
        if os.path.exists(path):
            with open(path) as f:
                child[v] = json.load(f)
        else:
            with open(path + '.err') as f:
                child[v] = {'fatal': f.read()[-1500:]}
    for ci, case in enumerate(cases):
        ctx.evaluate(lambda c, cs, ci=ci: _decide(c, cs, inproc[ci], {v: child[v] for v in child}, ci), case)
    import shutil
    shutil.rmtree(tmp, ignore_errors=True)


def _decide(ctx, case, inproc, child, ci):
    if isinstance(inproc, BaseException):
        raise inproc
    for v in CHILD_VARIANTS:
        if 'fatal' in child[v]:
            raise RuntimeError('child %s failed: %s' % (v, child[v]['fatal']))
        r = child[v]['results'][ci]
        if 'violation' in r:
            raise Violation(r['violation']['key'], 'variant %s (child process): %s' % (v, r['violation']['msg']), r['violation'].get('witness'))
        if 'crash' in r:
            # an exception inside elfi in the child: report it like an in-process crash
            raise Violation('crash-in-child:' + r['crash']['type'], 'variant %s: %s' % (v, r['crash']['trace'][-1200:]))
    ref = child['ref']['results'][ci]['res']
    ctx.event('variant_fresh_process')
    check_entry_points(ctx, ref, 'ref')
    allres = [ref]
    table = list(ref['table'])
    for v in ['hash1', 'hash2', 'hashrandom']:
        r = child[v]['results'][ci]['res']
        compare(ctx, ref, r, v, case)
        ctx.event('variant_hashseed')
        allres.append(r)
        table += r['table']
    r = child['mp']['results'][ci]['res']
    compare(ctx, ref, r, 'multiprocessing', case)
    check_entry_points(ctx, r, 'multiprocessing')
    ctx.event('variant_multiprocessing')
    for v in ['global_rng', 'history', 'order_reversed', 'order_random', 'bh_history', 'names_low', 'names_high']:
        r = inproc[v]
        compare(ctx, ref, r, v, case)
        check_entry_points(ctx, r, v)
        ctx.event('variant_' + v)
        allres.append(r)
        table += r['table']
    check_discipline(ctx, table, allres, case['spec'])
    indep = [p['name'] for p in case['spec']['params'] if not p.get('hier')]
    ctx.event('specs_with_reorderable_nodes', len(indep) >= 2)
    ctx.event('seed_zero_cases', case['seed'] == 0)
    ctx.event('specs_with_prefix_related_names', bool(case['spec'].get('prefix_pair')))
    ctx.nontrivial(len(case['spec']['params']) + 1 >= 2)


def run_case(ctx, case):
    """Replay of one case: all variants in this process plus the child variants."""
    class _C:
        pass
    sub = type(ctx)(ctx.prop, ctx.tier, ctx.seed, 0, 1, 1, cfg=ctx.cfg)
    sub.ncases = 1
    # reuse the shard driver on the single case
    global gen_cases
    orig = gen_cases
    try:
        gen_cases = lambda c: iter([case])  # noqa
        run_shard(sub)
    finally:
        gen_cases = orig
    for v in sub.violations:
        raise Violation(v['key'], v['msg'], v['witness'])
    if sub.harness_errors:
        raise RuntimeError(sub.harness_errors[0])
    ctx.counters.update(sub.counters)
