import numpy as np, math, scipy.stats as ss
from scipy.special import gammaln
def logc(k,v): return -k*v/2*math.log(2)-k*(k-1)/4*math.log(math.pi)-sum(gammaln(0.5*(v-i+1)) for i in range(1,k+1))
rs=np.random.RandomState(0)
for d,n in ((1,8),(2,10),(3,12)):
    mu=rs.randn(d); A=rs.randn(d,d); C=A@A.T+0.5*np.eye(d); L=np.linalg.cholesky(C); y=mu+0.7*rs.randn(d)
    R=400000; X=mu+rs.randn(R,n,d)@L.T
    m=X.mean(1); Xc=X-m[:,None,:]; M=np.einsum('rni,rnj->rij',Xc,Xc)   # (n-1)S
    df=(y-m); psi=M-np.einsum('ri,rj->rij',df,df)/(1-1/n)
    sM,lM=np.linalg.slogdet(M); sP,lP=np.linalg.slogdet(psi)
    # psi positive definite?
    pd=np.all(np.linalg.eigvalsh(psi)>0,axis=1)
    lp=-d/2*math.log(2*math.pi)+logc(d,n-2)-logc(d,n-1)-d/2*math.log(1-1/n)-(n-d-2)/2*lM+(n-d-3)/2*lP
    est=np.where(pd,np.exp(lp),0.0)
    true=ss.multivariate_normal.pdf(y,mu,C)
    print(d,n,'mean estimator',est.mean(),'+-',est.std()/np.sqrt(R),'true',true)
