import compat, numpy as np, elfi, warnings, itertools, time
compat.install()
warnings.simplefilter('ignore')
import elfi.client, elfi.examples.ma2 as ma2
from elfi.executor import Executor
class SchedClient(elfi.client.ClientBase):
    def __init__(self, seed, cores=3):
        self.rs = np.random.RandomState(seed); self.tasks={}; self.done={}; self.ready=set(); self._ids=itertools.count(); self.cores=cores; self.ev=[]; self.removed=set(); self.gotten=set()
    def apply(self, k, *a, **kw):
        i = next(self._ids); self.tasks[i]=(k,a,kw); self.ev.append(('submit',i)); self._maybe_run(); return i
    def _maybe_run(self):
        pend=[i for i in self.tasks if i not in self.done]
        self.rs.shuffle(pend)
        for i in pend:
            if self.rs.rand()<0.4:
                k,a,kw=self.tasks[i]; self.done[i]=k(*a,**kw); self.ev.append(('exec',i))
    def apply_sync(self,k,*a,**kw): return k(*a,**kw)
    def is_ready(self,i):
        self._maybe_run(); r = i in self.done and (i in self.ready or self.rs.rand()<0.5)
        if r: self.ready.add(i)
        self.ev.append(('ready?',i,r)); return r
    def get_result(self,i):
        assert i not in self.removed and i not in self.gotten
        if i not in self.done:
            k,a,kw=self.tasks[i]; self.done[i]=k(*a,**kw); self.ev.append(('exec',i))
        self.gotten.add(i); self.ev.append(('get',i)); self.tasks.pop(i); return self.done.pop(i)
    def remove_task(self,i):
        self.removed.add(i); self.tasks.pop(i,None); self.done.pop(i,None); self.ev.append(('remove',i))
    def reset(self): self.tasks.clear()
    @property
    def num_cores(self): return self.cores
def run(client, mpb, kind):
    elfi.client.set_client(client)
    m = ma2.get_model(seed_obs=1)
    if kind=='rej_thr':
        r = elfi.Rejection(m['d'], batch_size=20, seed=5, max_parallel_batches=mpb).sample(15, threshold=0.3, bar=False)
        return [r.outputs, r.threshold, r.n_sim]
    if kind=='smc':
        r = elfi.SMC(m['d'], batch_size=20, seed=5, max_parallel_batches=mpb).sample(15, quantiles=[0.5,0.5,0.5], bar=False)
        return [[p.outputs for p in r.populations], [p.weights for p in r.populations], r.n_sim]
def eq(a,b):
    if isinstance(a,dict): return all(eq(a[k],b[k]) for k in a)
    if isinstance(a,list): return all(eq(x,y) for x,y in zip(a,b))
    return np.array_equal(a,b)
import elfi.clients.native as nat
for kind in ('rej_thr','smc'):
    ref = run(nat.Client(), 1, kind)
    for s in range(6):
        c = SchedClient(s); out = run(c, 1+s%4, kind)
        print(kind, s, 'equal', eq(ref,out), 'left', len(c.tasks), 'removed', len(c.removed), 'events', len(c.ev))
import elfi.clients.multiprocessing as mp
t=time.time(); c = mp.Client(num_processes=3); out = run(c, None, 'smc'); print('mp equal', eq(ref,out), time.time()-t); c.pool.terminate()
