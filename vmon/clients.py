"""Schedule-controlled client (DESIGN.md section 4) and a recording wrapper for real clients.

ScheduledClient is a ClientBase whose behaviour is drawn from a seeded schedule:
*when* each outstanding task executes (at submit, at any later poll, or only at get_result),
*in which order* outstanding tasks execute, and what is_ready answers (monotone per task: once
ready always ready; a task that has not executed is never ready).  It records every
submit / exec / is_ready / get_result / remove_task event with a logical clock and asserts
online the client-side obligations of C04.
"""
import itertools

import numpy as np

import elfi.client

from vmon.core import Violation

REGIMES = ['eager', 'lazy', 'newest', 'random', 'bursty']


class ScheduledClient(elfi.client.ClientBase):
    def __init__(self, seed, cores, regime, mpb=None, prop='C04'):
        self.rs = np.random.RandomState(seed)
        self.tasks = {}          # live: id -> (kallable, args, kwargs)
        self.done = {}           # executed, not yet fetched: id -> result
        self.ready_said = set()
        self._ids = itertools.count()
        self.cores = cores
        self.regime = regime
        self.mpb = mpb
        self.prop = prop
        self.ev = []             # (kind, id[, answer])
        self.removed = set()
        self.fetched = set()
        self.fetched_after_remove = 0
        self.max_outstanding = 0
        self.n_exec = 0
        self.exec_after_removed = 0
        self.fetch_out_of_order = 0

    # -- schedule
    def _exec(self, i):
        k, a, kw = self.tasks[i]
        self.done[i] = k(*a, **kw)
        self.n_exec += 1
        self.ev.append(('x', i))

    def _maybe_run(self):
        pend = [i for i in self.tasks if i not in self.done]
        if not pend or self.regime == 'lazy':
            return
        if self.regime == 'eager':
            order, p = pend, 1.0
        elif self.regime == 'newest':
            order, p = pend[::-1], 0.7
        elif self.regime == 'bursty':
            # nothing for a while, then everything at once in random order
            if self.rs.rand() < 0.75:
                return
            order, p = list(pend), 1.0
            self.rs.shuffle(order)
        else:
            order, p = list(pend), 0.4
            self.rs.shuffle(order)
        for i in order:
            if self.rs.rand() < p:
                self._exec(i)

    # -- ClientBase API
    def apply(self, kallable, *args, **kwargs):
        i = next(self._ids)
        self.tasks[i] = (kallable, args, kwargs)
        self.ev.append(('s', i))
        self.max_outstanding = max(self.max_outstanding, len(self.tasks))
        if self.mpb is not None and len(self.tasks) > self.mpb:
            raise Violation('outstanding-exceeds-max', 'outstanding tasks %d > max_parallel_batches %d' % (len(self.tasks), self.mpb),
                            {'events_tail': self.ev[-12:]})
        self._maybe_run()
        return i

    def apply_sync(self, kallable, *args, **kwargs):
        return kallable(*args, **kwargs)

    def is_ready(self, i):
        if i not in self.tasks:
            raise Violation('is_ready-on-dead-task', 'is_ready(%d) on a task that was fetched or removed' % i, {'events_tail': self.ev[-12:]})
        self._maybe_run()
        r = i in self.done and (i in self.ready_said or self.regime == 'eager' or self.rs.rand() < 0.5)
        if r:
            self.ready_said.add(i)
        self.ev.append(('r', i, bool(r)))
        return r

    def get_result(self, i):
        if i in self.removed:
            raise Violation('cancelled-result-used', 'get_result(%d) on a cancelled task' % i, {'events_tail': self.ev[-12:]})
        if i in self.fetched or i not in self.tasks:
            raise Violation('double-fetch', 'get_result(%d) on a task already fetched / unknown' % i, {'events_tail': self.ev[-12:]})
        if i != min(self.tasks):
            self.fetch_out_of_order += 1   # informational; in-order *consumption* is decided on the update() history
        if i not in self.done:
            # other outstanding tasks may complete first while the caller blocks
            if self.regime in ('newest', 'random', 'bursty'):
                others = [j for j in self.tasks if j not in self.done and j != i]
                self.rs.shuffle(others)
                for j in others:
                    if self.rs.rand() < 0.5:
                        self._exec(j)
            self._exec(i)
        self.fetched.add(i)
        self.ev.append(('g', i))
        self.tasks.pop(i)
        return self.done.pop(i)

    def remove_task(self, i):
        self.removed.add(i)
        self.tasks.pop(i, None)
        self.done.pop(i, None)
        self.ev.append(('d', i))

    def reset(self):
        self.tasks.clear()
        self.done.clear()

    @property
    def num_cores(self):
        return self.cores

    # -- summaries for the evidence
    def interleaving(self):
        return tuple(e[0] if e[0] != 'r' else ('r', e[2]) for e in self.ev)

    def stats(self):
        xs = [e[1] for e in self.ev if e[0] == 'x']
        return {'cancelled': len(self.removed), 'out_of_order_exec': xs != sorted(xs),
                'not_ready_answers': sum(1 for e in self.ev if e[0] == 'r' and not e[2]),
                'executed': self.n_exec, 'max_outstanding': self.max_outstanding}


class RecordingClient(elfi.client.ClientBase):
    """Wraps a real client (e.g. multiprocessing) and records/asserts the same obligations."""

    def __init__(self, inner, mpb=None):
        self.inner = inner
        self.mpb = mpb
        self.live = []
        self.removed = set()
        self.fetched = set()
        self.ev = []
        self.max_outstanding = 0

    def apply(self, kallable, *args, **kwargs):
        i = self.inner.apply(kallable, *args, **kwargs)
        self.live.append(i)
        self.ev.append(('s', i))
        self.max_outstanding = max(self.max_outstanding, len(self.live))
        if self.mpb is not None and len(self.live) > self.mpb:
            raise Violation('outstanding-exceeds-max', 'outstanding tasks %d > max_parallel_batches %d' % (len(self.live), self.mpb))
        return i

    def apply_sync(self, kallable, *args, **kwargs):
        return self.inner.apply_sync(kallable, *args, **kwargs)

    def is_ready(self, i):
        if i not in self.live:
            raise Violation('is_ready-on-dead-task', 'is_ready(%d) on a task that was fetched or removed' % i)
        r = self.inner.is_ready(i)
        self.ev.append(('r', i, bool(r)))
        return r

    def get_result(self, i):
        if i in self.removed:
            raise Violation('cancelled-result-used', 'get_result(%d) on a cancelled task' % i)
        if i in self.fetched or i not in self.live:
            raise Violation('double-fetch', 'get_result(%d) on a task already fetched / unknown' % i)
        res = self.inner.get_result(i)
        self.fetched.add(i)
        self.live.remove(i)
        self.ev.append(('g', i))
        return res

    def remove_task(self, i):
        self.removed.add(i)
        if i in self.live:
            self.live.remove(i)
        self.ev.append(('d', i))
        return self.inner.remove_task(i)

    def reset(self):
        self.live = []
        return self.inner.reset()

    @property
    def num_cores(self):
        return self.inner.num_cores

    @property
    def tasks(self):
        return {i: None for i in self.live}
