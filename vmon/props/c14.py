"""C14 - Editing, copying and saving a model preserves its structure and meaning.

Edit histories are generated as plain data against a reference spec; the same edits are
applied to the real ElfiModel and to the reference; after every step the model is compared
structurally (up to names of private constants) and by meaning (C03's interpreter), and
every watched copy / original is compared with a deep snapshot taken when it was set aside.
"""
import copy
import os
import shutil
import tempfile

import networkx as nx

from vmon import symgraph as sg
from vmon.core import Violation

PROPERTY = 'C14'
LEVEL = 'exploration'
TECHNIQUE = ('runtime monitoring: random edit histories (add/become/remove/flags/observed/copy/save+load) applied in lockstep to the real '
             'ElfiModel and a plain-data reference; structural + dataflow-meaning comparison after every step; deep-snapshot isolation monitor on copies')
LEVEL_TEXT = ('Held on every generated history: after each edit the real model graph equals the reference implementation of the statement '
              '(nodes, ordered positional and named edges, private constants, observed data, parameter flags, acyclic, no index gaps), its seeded '
              'outputs equal the interpreter on the edited spec, copies and saved+loaded models give identical seeded outputs, and a watched '
              'copy/original never changes while the other is edited. Histories are sampled (1-12 edits), not exhaustive.')
LEVEL_NOTE = 'trusts: the 40-line reference edit semantics in this module, vmon/symgraph.py interpreter; remove is applied to leaf nodes only (the statement does not define removing an inner node)'
RULE = ('cases = random edit history of 3-12 steps over random specs (add node with inline private constants and named edges, become with a '
        'freshly created replacement with/without observation, remove leaf, set parameter_names, change observed data, copy(), save()/load() '
        'with optional switch of the edited model); distinct = hash of the history; non-trivial = history has >= 1 become/remove and >= 1 copy or save/load')
ASSUMPTIONS = ['copies get a new model name by design; run metadata (model name) is therefore not generated in C14 specs',
               'node-level AdaptiveDistance state lists are not part of these specs']
CONFIG = {
    'quick': {'shards': 16, 'cases': 360, 'timeout': 600, 'floor': 1200},
    'thorough': {'shards': 32, 'cases': 8000, 'timeout': 5400, 'floor': 60000},
}
REQUIRED = ['steps_checked', 'structure_compared', 'meaning_terms_compared', 'watched_checks', 'op_add', 'op_become', 'op_remove',
            'op_flags', 'op_obs', 'op_copy', 'op_saveload', 'copy_output_comparisons',
            'owners_of_a_private_observed_simulator_removed_or_replaced', 'op_become_existing', 'copies_via_copy_module', 'op_become_cyclic']

KN = {'op': 'Operation', 'prior': 'Prior', 'sim': 'Simulator', 'summary': 'Summary', 'disc': 'Discrepancy', 'const': 'Constant'}


# ------------------------------------------------------------------ reference (plain data)
def _children(nodes, n):
    return [m for m, s in nodes.items() if n in [p for p in s['pos'] if isinstance(p, str)] or n in s['kw'].values()]


def _descendants(nodes, n):
    out, st = set(), [n]
    while st:
        x = st.pop()
        for c in _children(nodes, x):
            if c not in out:
                out.add(c)
                st.append(c)
    return out


def _ancestors(nodes, n):
    out, stack = set(), [n]
    while stack:
        x = stack.pop()
        for p in list(nodes[x]['pos']) + list(nodes[x]['kw'].values()):
            if isinstance(p, str) and p not in out:
                out.add(p)
                stack.append(p)
    return out


def _new_desc(rng, ctr, avail, kinds=None):
    kinds = kinds or (['const', 'op', 'prior'] + (['sim', 'summary', 'disc'] if avail else []))
    kind = str(rng.choice(kinds))
    ctr[0] += 1
    opid = 'o%d' % ctr[0]
    k = 0 if kind == 'const' else int(rng.integers(1 if kind in ('summary', 'disc') else 0, 4))
    pos = []
    for _ in range(k):
        if avail and rng.random() < 0.8:
            p = str(rng.choice(avail[:3] if rng.random() < 0.4 else avail))
            if p not in pos:
                pos.append(p)
        else:
            ctr[0] += 1
            pos.append({'const': 'c%d' % ctr[0]})
    if kind in ('summary', 'disc') and not pos:
        ctr[0] += 1
        pos.append({'const': 'c%d' % ctr[0]})
    if kind in ('summary', 'disc') and rng.random() < 0.12:
        # a private (underscore-named), parameter-free simulator that carries observed data, used by this node only: like a
        # private constant it must disappear - together with its observed data - when its only user is removed or replaced
        ctr[0] += 1
        pos.append({'psim': 'q%d' % ctr[0], 'obs': 'y%d' % ctr[0]})
    kw = {}
    if kind in ('op', 'sim', 'summary') and avail and rng.random() < 0.35:
        c = [a for a in avail if a not in pos]
        if c:
            kw['kw0'] = str(rng.choice(c))
    obs = opid if (kind in ('sim', 'summary') and rng.random() < 0.6) else None
    return {'kind': kind, 'opid': opid, 'pos': pos, 'kw': kw, 'obs': obs, 'param': kind == 'prior'}


def gen_history(rng):
    nodes, ctr, hist = {}, [0], []
    for _step in range(int(rng.integers(3, 15))):
        pub = list(nodes)
        acts = ['add'] * 3 + (['become', 'become', 'remove', 'flags', 'obs'] if pub else []) + ['copy', 'saveload'] + (['become_existing'] * 3 if len(pub) >= 2 else []) + (['become_cyclic'] if pub else [])
        a = str(rng.choice(acts))
        if a == 'add':
            d = _new_desc(rng, ctr, pub)
            name = 'n%d' % ctr[0]
            nodes[name] = d
            hist.append({'op': 'add', 'name': name, 'node': d})
        elif a == 'become':
            # prefer targets with many children: those are the edges a replacement must keep
            w = [1.0 + 2.0 * len(_children(nodes, n)) ** 2 for n in pub]
            T = str(rng.choice(pub, p=[x / sum(w) for x in w]))
            if nodes[T]['kind'] == 'const':
                continue
            forbidden = _descendants(nodes, T) | {T}
            avail = [n for n in pub if n not in forbidden]
            d = _new_desc(rng, ctr, avail, kinds=['op', 'prior', 'sim', 'summary', 'disc'] if avail else ['op', 'prior'])
            nodes[T] = d
            hist.append({'op': 'become', 'target': T, 'tmp': 'r%d' % ctr[0], 'node': d})
        elif a == 'become_existing':
            # the replacement is a node that has been in the model for a while (possibly through copies and earlier edits),
            # not one created for the purpose: a childless node X; T takes over X's operation, parents and observed data, X goes
            cand = [(T, X) for T in pub for X in pub if T != X and nodes[T]['kind'] != 'const' and nodes[X]['kind'] != 'const'
                    and not _children(nodes, X) and X not in _descendants(nodes, T) and T not in nodes[X]['pos'] and T not in nodes[X]['kw'].values()
                    and T not in _ancestors(nodes, X)]
            if not cand:
                continue
            T, X = cand[int(rng.integers(len(cand)))]
            nodes[T] = nodes.pop(X)
            hist.append({'op': 'become_existing', 'target': T, 'other': X})
        elif a == 'become_cyclic':
            # an edit that cannot be carried out: the replacement depends on the node it is to replace (a := f(a, ...)). The model
            # must stay a consistent acyclic graph - the edit is refused and everything, the would-be replacement included, stays
            cand = [n for n in pub if nodes[n]['kind'] != 'const']
            if not cand:
                continue
            T = str(rng.choice(cand))
            d = _new_desc(rng, ctr, pub, kinds=['op', 'summary'] if nodes[T]['kind'] in ('sim', 'summary') else ['op'])
            via = [n for n in pub if n == T or T in _ancestors(nodes, n)]
            dep = str(rng.choice(via))
            if dep not in d['pos'] and dep not in d['kw'].values():
                d['pos'].insert(int(rng.integers(len(d['pos']) + 1)), dep)
            name = 'n%d' % ctr[0]
            nodes[name] = d
            hist.append({'op': 'become_cyclic', 'target': T, 'name': name, 'node': d})
        elif a == 'remove':
            leaves = [n for n in pub if not _children(nodes, n)]
            if not leaves:
                continue
            T = str(rng.choice(leaves))
            del nodes[T]
            hist.append({'op': 'remove', 'target': T})
        elif a == 'flags':
            pri = [n for n in pub if nodes[n]['kind'] == 'prior']
            sel = [n for n in pri if rng.random() < 0.5]
            for n in nodes:
                nodes[n] = dict(nodes[n], param=(n in sel))
            hist.append({'op': 'flags', 'params': sel})
        elif a == 'obs':
            ob = [n for n in pub if nodes[n]['kind'] in ('sim', 'summary')]
            if not ob:
                continue
            T = str(rng.choice(ob))
            ctr[0] += 1
            nodes[T] = dict(nodes[T], obs='x%d' % ctr[0])
            hist.append({'op': 'obs', 'target': T, 'value': 'x%d' % ctr[0]})
        else:
            hist.append({'op': a, 'switch': bool(rng.random() < 0.5)})
    return hist


def gen_cases(ctx):
    for _ in range(ctx.ncases):
        yield {'history': gen_history(ctx.rng), 'seed': int(ctx.rng.integers(0, 10 ** 6))}


def apply_ref(nodes, op):
    if op['op'] == 'add':
        nodes[op['name']] = copy.deepcopy(op['node'])
    elif op['op'] == 'become':
        nodes[op['target']] = copy.deepcopy(op['node'])
    elif op['op'] == 'become_existing':
        nodes[op['target']] = nodes.pop(op['other'])
    elif op['op'] == 'become_cyclic':
        nodes[op['name']] = copy.deepcopy(op['node'])
    elif op['op'] == 'remove':
        del nodes[op['target']]
    elif op['op'] == 'flags':
        for n in nodes:
            nodes[n]['param'] = n in op['params']
    elif op['op'] == 'obs':
        nodes[op['target']]['obs'] = op['value']


# ------------------------------------------------------------------ elfi side
def _pos_value(m, p):
    if isinstance(p, str):
        return m[p]
    if 'psim' in p:
        import elfi
        return elfi.Simulator(sg.Sym(p['psim'], 0, [], True, True), model=m, name='_' + p['psim'], observed=('O', p['obs']))
    return ('C', p['const'])


def elfi_create(m, name, d):
    import elfi
    P = [_pos_value(m, p) for p in d['pos']]
    obs = ('O', d['obs']) if d['obs'] is not None else None
    kind, npos, kws = d['kind'], len(d['pos']), list(d['kw'])
    if kind == 'const':
        r = elfi.Constant(('V', d['opid']), model=m, name=name)
    elif kind == 'op':
        r = elfi.Operation(sg.Sym(d['opid'], npos, kws), *P, model=m, name=name)
    elif kind == 'prior':
        r = elfi.Prior(sg.Dist(d['opid'], npos), *P, model=m, name=name)
    elif kind == 'sim':
        r = elfi.Simulator(sg.Sym(d['opid'], npos, kws, True, True), *P, model=m, name=name, observed=obs)
    elif kind == 'summary':
        r = elfi.Summary(sg.Sym(d['opid'], npos, kws), *P, model=m, name=name, observed=obs)
    else:
        r = elfi.Discrepancy(sg.Sym(d['opid'], npos, ['observed']), *P, model=m, name=name)
    for k, p in d['kw'].items():
        m.add_edge(p, name, k)
    return r


def apply_elfi(m, op):
    if op['op'] == 'add':
        elfi_create(m, op['name'], op['node'])
    elif op['op'] == 'become':
        R = elfi_create(m, op['tmp'], op['node'])
        m[op['target']].become(R)
    elif op['op'] == 'become_existing':
        m[op['target']].become(m[op['other']])
    elif op['op'] == 'become_cyclic':
        R = elfi_create(m, op['name'], op['node'])
        try:
            m[op['target']].become(R)
        except Exception:
            pass          # refused (the statement does not prescribe the exception type); what the model looks like now is judged like after every other step
    elif op['op'] == 'remove':
        m.remove_node(op['target'])
    elif op['op'] == 'flags':
        m.parameter_names = list(op['params'])
    elif op['op'] == 'obs':
        m.observed[op['target']] = ('O', op['value'])


def _private_value(m, p):
    st = m.source_net.nodes[p]['attr_dict']
    if '_output' in st:
        return {'const': st['_output'][1]}
    ob = m.observed.get(p)
    return {'psim': st['_operation'].opid, 'obs': ob[1] if ob is not None else None}


def canon(m):
    """Structure of the real model up to names of private constants; raises Violation on inconsistency."""
    out = {}
    sn = m.source_net
    if not nx.is_directed_acyclic_graph(sn):
        raise Violation('cyclic', 'model graph is not acyclic')
    for n in sn.nodes:
        if n.startswith('_'):
            if sn.degree(n) == 0:
                raise Violation('orphan-private-constant', 'private node %s is left without any edge' % n)
            continue
        st = sn.nodes[n]['attr_dict']
        pos, kw, idx = [], {}, []
        for p in sn.predecessors(n):
            par = sn[p][n]['param']
            val = _private_value(m, p) if p.startswith('_') else p
            if isinstance(par, int):
                idx.append(par)
                pos.append((par, val))
            else:
                kw[par] = val
        if sorted(idx) != list(range(len(idx))):
            raise Violation('positional-gaps', 'node %s has positional parent indices %s' % (n, sorted(idx)))
        pos = [v for _, v in sorted(pos, key=lambda t: t[0])]
        # the public accessor must agree with the edges: positional parents in declared order
        gp = [(_private_value(m, q) if q.startswith('_') else q) for q in m.get_parents(n)]
        if gp != pos:
            raise Violation('get-parents-order', 'get_parents(%s) returns %s, positional parents in declared order are %s' % (n, gp, pos))
        op = st.get('_operation')
        if 'distribution' in st:
            opid = st['distribution'].opid
        elif hasattr(op, 'opid'):
            opid = op.opid
        else:
            opid = st.get('_output')[1]
        obs = m.observed.get(n)
        out[n] = {'cls': st['_class'].__name__, 'opid': opid, 'pos': pos, 'kw': kw,
                  'obs': obs[1] if obs is not None else None, 'param': '_parameter' in st}
    extra = set(m.observed) - set(out) - {n for n in sn.nodes if n.startswith('_')}
    if extra:
        raise Violation('observed-for-absent-node', 'observed data present for absent nodes %s' % sorted(extra))
    exp_params = sorted(n for n, v in out.items() if v['param'])
    if list(m.parameter_names) != exp_params:
        raise Violation('parameter-names', 'parameter_names %s != sorted parameter nodes %s' % (m.parameter_names, exp_params))
    return out


def canon_ref(nodes):
    return {n: {'cls': KN[d['kind']], 'opid': d['opid'], 'pos': list(d['pos']), 'kw': dict(d['kw']), 'obs': d['obs'], 'param': d['param']}
            for n, d in nodes.items()}


def ref_spec(nodes):
    """Reference nodes -> symgraph spec (inline constants become const nodes) in a topological order."""
    spec, done = [], set()
    pend = dict(nodes)

    def emit(n):
        if n in done:
            return
        d = nodes[n]
        pos = []
        for p in d['pos']:
            if isinstance(p, str):
                emit(p)
                pos.append(p)
            elif 'psim' in p:
                cn = '_' + p['psim']
                if cn not in done:
                    spec.append({'name': cn, 'kind': 'sim', 'pos': [], 'kw': {}, 'obs': True, 'meta': False, 'tol': False, 'opid': p['psim'],
                                 'obsid': p['obs']})
                    done.add(cn)
                pos.append(cn)
            else:
                cn = '_c_' + p['const']
                if cn not in done:
                    spec.append({'name': cn, 'kind': 'const', 'pos': [], 'kw': {}, 'obs': False, 'meta': False, 'tol': False, 'opid': p['const']})
                    done.add(cn)
                pos.append(cn)
        for p in d['kw'].values():
            emit(p)
        spec.append({'name': n, 'kind': d['kind'], 'pos': pos, 'kw': dict(d['kw']), 'obs': d['obs'] is not None, 'meta': False,
                     'tol': False, 'opid': d['opid'], 'obsid': d['obs']})
        done.add(n)
    for n in pend:
        emit(n)
    return spec


def _interp_node(spec, n, bs):
    try:
        ref, _ran = sg.interp(spec, [n], bs, {}, 0, None)
        return ('ok', ref[n])
    except sg.Reject:
        return ('reject', None)


def gen_all(m, seed):
    res = {}
    for n in [x for x in m.source_net.nodes if not x.startswith('_')]:
        try:
            res[n] = ('ok', m.generate(2, [n], seed=seed)[n])
        except Exception as e:
            res[n] = ('err', type(e).__name__)
    return res


def deep_snapshot(m):
    sn = m.source_net
    nodes = {}
    for n, data in sn.nodes(data=True):
        st = data['attr_dict']
        nodes[n] = sorted((k, repr(v)) for k, v in st.items())
    edges = sorted((u, v, repr(sorted(d.items()))) for u, v, d in sn.edges(data=True))
    return repr((sorted(nodes.items()), edges, sorted((k, repr(v)) for k, v in m.observed.items())))


def _remap_terms(t, nodes):
    """The interpreter's constant / observed terms -> the terms the C14 builders use."""
    if isinstance(t, tuple):
        if len(t) == 2 and t[0] == 'C':
            # inline private constants carry ('C', id); Constant nodes carry ('V', opid)
            return ('C', t[1]) if t[1].startswith('c') else ('V', t[1])
        return tuple(_remap_terms(x, nodes) for x in t)
    return t


def run_case(ctx, case):
    import elfi
    sg.DRAWS['on'] = True
    try:
        _run(ctx, case, elfi)
    finally:
        sg.DRAWS['on'] = False


def _run(ctx, case, elfi):
    seed = case['seed']
    nodes = {}
    m = elfi.ElfiModel(name='h')
    watched = []
    kinds = set()
    for si, op in enumerate(case['history']):
        where = 'step %d (%s)' % (si, op['op'])
        ctx.event('op_' + op['op'])
        kinds.add(op['op'])
        if op['op'] in ('copy', 'saveload'):
            if op['op'] == 'copy':
                # both spellings of "a copy": the method and the standard copy module
                if si % 2:
                    other = copy.copy(m)
                    ctx.event('copies_via_copy_module')
                else:
                    other = m.copy()
            else:
                d = tempfile.mkdtemp()
                try:
                    m.save(prefix=d)
                    other = elfi.ElfiModel.load(m.name, prefix=d)
                finally:
                    shutil.rmtree(d, ignore_errors=True)
            a, b = gen_all(m, seed), gen_all(other, seed)
            ctx.event('copy_output_comparisons', len(a))
            if a != b:
                diff = [k for k in set(a) | set(b) if a.get(k) != b.get(k)]
                raise Violation('copy-outputs-differ', '%s: %s gives different seeded outputs for nodes %s' % (
                    where, 'copy' if op['op'] == 'copy' else 'saved+loaded model', diff[:4]),
                    {'original': sg.to_plain(a[diff[0]]) if diff[0] in a else None, 'other': sg.to_plain(b[diff[0]]) if diff[0] in b else None})
            if canon(other) != canon(m):
                raise Violation('copy-structure-differs', '%s: structure of the copy differs from the original' % where)
            if op['switch']:
                watched.append((m, deep_snapshot(m), a, copy.deepcopy(nodes)))
                m = other
            else:
                watched.append((other, deep_snapshot(other), b, copy.deepcopy(nodes)))
        else:
            try:
                apply_elfi(m, op)
            except Violation:
                raise
            except Exception as e:
                raise Violation('edit-crash', '%s raised %s: %s' % (where, type(e).__name__, str(e)[:300]))
            if op['op'] in ('become', 'remove', 'become_existing') and any(isinstance(q, dict) and 'psim' in q for q in nodes[op['target']]['pos']):
                ctx.event('owners_of_a_private_observed_simulator_removed_or_replaced')
            apply_ref(nodes, op)
        ctx.event('steps_checked')
        # structure
        ce, cr = canon(m), canon_ref(nodes)
        ctx.event('structure_compared', len(cr))
        if ce != cr:
            diff = [(k, ce.get(k), cr.get(k)) for k in sorted(set(ce) | set(cr)) if ce.get(k) != cr.get(k)]
            raise Violation('structure', '%s: model structure differs from the reference semantics of the edit at node %s' % (where, diff[0][0]),
                            {'node': diff[0][0], 'elfi': diff[0][1], 'reference': diff[0][2]})
        # meaning
        spec = ref_spec(nodes)
        got = gen_all(m, seed)
        wholegraph = sg.graph_has_stochastic_observed(spec)
        for n in nodes:
            kind, ref = _interp_node(spec, n, 2)
            if kind == 'reject':
                continue
            ref = _remap_obs(spec, ref)
            if got[n][0] != 'ok' and wholegraph:
                ctx.event('admissible_whole_graph_rejections')
                continue
            if got[n][0] != 'ok':
                raise Violation('meaning', '%s: node %s cannot be generated (%s) although its dataflow meaning is defined' % (where, n, got[n][1]))
            if sg.strip_draws(got[n][1]) != ref:
                raise Violation('meaning', '%s: seeded output of node %s differs from the dataflow meaning of the edited graph' % (where, n),
                                {'got': sg.to_plain(sg.strip_draws(got[n][1])), 'expected': sg.to_plain(ref)})
            ctx.event('meaning_terms_compared')
        # isolation of watched models
        for wm, snap, outs, _wn in watched:
            ctx.event('watched_checks')
            if deep_snapshot(wm) != snap:
                raise Violation('shared-state', '%s: a set-aside copy/original changed while the other model was edited' % where,
                                {'edit': op})
            if gen_all(wm, seed) != outs:
                raise Violation('shared-state-outputs', '%s: seeded outputs of a set-aside copy/original changed while the other was edited' % where,
                                {'edit': op})
    ctx.nontrivial(bool(kinds & {'become', 'remove'}) and bool(kinds & {'copy', 'saveload'}))
    ctx.distinct('op_kinds', repr(sorted(kinds)))


def _remap_obs(spec, t):
    """symgraph terms use ('C', opid) for constants and ('O', opid) for observations; C14 builders use
    ('C', id) for inline constants, ('V', opid) for Constant nodes and ('O', obs id) for observations."""
    obsid = {nd['opid']: nd.get('obsid') for nd in spec}
    consts = {nd['opid'] for nd in spec if nd['kind'] == 'const' and nd['name'].startswith('_c_')}

    def f(x):
        if isinstance(x, tuple):
            if len(x) == 2 and x[0] == 'C' and isinstance(x[1], str):
                return ('C', x[1]) if x[1] in consts else ('V', x[1])
            if len(x) == 2 and x[0] == 'O' and isinstance(x[1], str):
                return ('O', obsid.get(x[1], x[1]))
            return tuple(f(y) for y in x)
        return x
    return f(t)
