"""C08 - The joint model prior equals the product of the conditional prior densities.

Reference-model monitor: the real ModelPrior (pdf / logpdf / rvs / gradient_logpdf) is run on
random hierarchical prior specs and compared with scipy.stats evaluated directly from the
*spec* (never from elfi's graph).  See DESIGN.md section 5 / C08.
"""
import numpy as np
import scipy.stats as ss

from vmon.core import Skip, Violation

PROPERTY = 'C08'
LEVEL = 'exploration'
TECHNIQUE = ('runtime monitoring: reference-model monitor on ModelPrior.pdf/logpdf/rvs/gradient_logpdf over random '
             'hierarchical prior specs, parameter selections and evaluation points (inside / boundary / outside the support)')
LEVEL_TEXT = ('Held on every generated execution: the real ModelPrior built from a random prior graph is evaluated at generated '
              'points and compared with the product / sum of scipy conditional (log-)densities computed from the spec. Exploration '
              '(random graphs x selections x points); the property quantifies over models and points, which only sampling reaches.')
LEVEL_NOTE = ('trusts: scipy.stats densities (also used by elfi for string-named priors, so the monitor checks the graph '
              'augmentation / argument wiring / column mapping, not scipy), numpy; compat layer (DESIGN.md section 3)')
RULE = ('cases = random prior spec (1-5 parameters from uniform/norm/expon/gamma/beta/truncnorm/lognorm/custom class, arguments '
        'constants or earlier parameters incl. chains, trees, shared parents, omitted trailing arguments; names permuted so that '
        'alphabetical != creation order; optional simulator+summary on top) x requested parameter list (default sorted | all '
        'permuted | ancestrally closed strict subset, permuted) x 40 points (inside / on the boundary of / outside the '
        'conditional supports); distinct = hash of the case; non-trivial = (>= 2 selected parameters or a hierarchical '
        'dependency) and the points contain rows inside and rows outside the support')
ASSUMPTIONS = ['parameter arguments are positional (elfi.Prior accepts no keyword parents)',
               'requested strict subsets are ancestrally closed (otherwise the statement defines no value)',
               'rows at which a conditional scipy density is nan (invalid scale/shape reached through a parent value) or +inf '
               'are excluded from value comparisons (counted in rows_excluded_invalid)',
               'pdf (not logpdf) values and pdf zero-sets are compared only where the reference log-density is > -600 or -inf '
               '(floating underflow of a product is not a zero of a conditional density)',
               'gradient_logpdf is driven with stepsize None or one scalar (a per-dimension list raises TypeError in numgrad on '
               'the unchanged tree for dim > 1: outside the domain on which the tree returns)',
               'gradients are compared at interior points whose +-0.05 neighbourhood along every axis is inside the support']
CONFIG = {
    'quick': {'shards': 16, 'cases': 88, 'timeout': 600, 'floor': 280},
    'thorough': {'shards': 32, 'cases': 1200, 'timeout': 5400, 'floor': 7500},
}
REQUIRED = ['pdf_rows_checked', 'logpdf_rows_checked', 'rows_zero_density', 'rows_positive_density', 'rows_boundary',
            'rvs_rows_checked', 'grad_points_checked', 'shape_checks', 'sel_sorted', 'sel_perm', 'sel_subset',
            'specs_hierarchical', 'specs_custom_dist', 'grad_integer_typed_points_checked', 'grad_float32_points_checked', 'grad_mixed_inside_outside_matrices', 'rows_where_the_product_underflows_but_no_conditional_is_zero']

KNOWN_NAN = 'nan-where-a-zero-density-parent-invalidates-a-child'
NPTS = 40
MARGIN = 0.05          # interior margin for gradient points (>= 100 x the reference step)
HREF = 2e-4            # step of the Richardson reference

# family -> list of argument slots; 'loc' real valued, 'pos' must be > 0, 'shape' > 0 (const >= 1), 'a'/'b' truncnorm limits
FAMILIES = {
    'uniform': ['loc', 'pos'],
    'norm': ['loc', 'pos'],
    'expon': ['loc', 'pos'],
    'gamma': ['shape', 'loc', 'pos'],
    'beta': ['shape', 'shape', 'loc', 'pos'],
    'truncnorm': ['a', 'b', 'loc', 'pos'],
    'lognorm': ['cshape', 'loc', 'pos'],
    'cnorm': ['loc', 'pos'],
    'cunif': ['loc', 'pos'],          # user-defined class with a bounded support (rvs + pdf only; logpdf inherited)
}
POS_FAMILIES = ('uniform', 'expon', 'gamma', 'beta', 'lognorm', 'cunif')


def _scipy(dist):
    return ss.norm if dist == 'cnorm' else (ss.uniform if dist == 'cunif' else getattr(ss, dist))


_CUSTOM = {}


def _custom_norm():
    """A user-defined ScipyLikeDistribution (classmethods; logpdf inherited = log(pdf))."""
    if 'c' not in _CUSTOM:
        import elfi

        class CNorm(elfi.Distribution):
            @classmethod
            def rvs(cls, loc=0.0, scale=1.0, size=1, random_state=None):
                return ss.norm.rvs(loc, scale, size=size, random_state=random_state)

            @classmethod
            def pdf(cls, x, loc=0.0, scale=1.0):
                return ss.norm.pdf(x, loc, scale)

        class CUnif(elfi.Distribution):
            @classmethod
            def rvs(cls, loc=0.0, scale=1.0, size=1, random_state=None):
                return ss.uniform.rvs(loc, scale, size=size, random_state=random_state)

            @classmethod
            def pdf(cls, x, loc=0.0, scale=1.0):
                return ss.uniform.pdf(x, loc, scale)

        _CUSTOM['c'] = CNorm
        _CUSTOM['u'] = CUnif
    return _CUSTOM['c']


# ---------------------------------------------------------------------------------------
# generation
def gen_spec(rng):
    k = int(rng.choice([1, 2, 2, 3, 3, 4, 5]))
    base = ['q%02d' % i for i in range(k)]
    names = [base[i] for i in rng.permutation(k)]
    params = []
    positive = []          # names of parameters whose support is inside (0, inf)
    fams = list(FAMILIES)
    for i in range(k):
        dist = str(rng.choice(fams))
        slots = FAMILIES[dist]
        args = []
        used = set()
        is_pos = dist in POS_FAMILIES
        for s in slots:
            if s == 'loc':
                cand = [p['name'] for p in params if p['name'] not in used]
                if cand and rng.random() < 0.5:
                    r = str(rng.choice(cand))
                    used.add(r)
                    args.append({'ref': r})
                    if r not in positive:
                        is_pos = False
                else:
                    if dist in POS_FAMILIES and rng.random() < 0.6:
                        v = round(float(rng.uniform(0.2, 1.5)), 3)
                    else:
                        v = round(float(rng.uniform(-2, 2)), 3)
                    if v < 0.2:
                        is_pos = False
                    args.append(v)
            elif s in ('pos', 'shape'):
                cand = [p for p in positive if p not in used]
                if cand and rng.random() < 0.35:
                    r = str(rng.choice(cand))
                    used.add(r)
                    args.append({'ref': r})
                else:
                    args.append(round(float(rng.uniform(1.0, 3.0) if s == 'shape' else rng.uniform(0.3, 2.5)), 3))
            elif s == 'cshape':       # constant only: a parent-valued lognormal shape gives astronomically heavy tails
                args.append(round(float(rng.uniform(0.3, 1.5)), 3))
            elif s == 'a':
                args.append(round(float(rng.uniform(-2.5, 0.5)), 3))
            elif s == 'b':
                args.append(round(float(args[-1] + rng.uniform(0.5, 3.0)), 3))
        # optionally omit trailing loc / scale arguments (scipy defaults loc=0, scale=1)
        if rng.random() < 0.2:
            drop = int(rng.integers(1, 3))
            for _ in range(drop):
                if args and slots[len(args) - 1] in ('loc', 'pos'):
                    if slots[len(args) - 1] == 'loc':
                        is_pos = False       # default loc = 0
                    args.pop()
        if 'loc' in slots and len(args) <= slots.index('loc'):
            is_pos = False
        form = 'custom' if dist in ('cnorm', 'cunif') else str(rng.choice(['str', 'str', 'obj']))
        params.append({'name': names[i], 'dist': dist, 'form': form, 'args': args})
        if is_pos:
            positive.append(names[i])
    return {'params': params, 'with_sim': bool(rng.random() < 0.4)}


def _refs(p):
    return [a['ref'] for a in p['args'] if isinstance(a, dict)]


def gen_cases(ctx):
    rng = ctx.rng
    modes = ['sorted', 'perm', 'subset']
    i = 0
    while i < ctx.ncases:
        spec = gen_spec(rng)
        names = [p['name'] for p in spec['params']]
        mode = modes[(i + ctx.shard) % 3] if rng.random() < 0.7 else str(rng.choice(modes))
        if mode == 'sorted':
            sel = None
        elif mode == 'perm':
            sel = [names[j] for j in rng.permutation(len(names))]
        else:
            keep = []
            for p in spec['params']:
                if rng.random() < 0.6 and all(r in keep for r in _refs(p)):
                    keep.append(p['name'])
            if not keep or len(keep) == len(names):
                # force a strict closed subset when one exists: ancestors-closed prefix
                roots = [p['name'] for p in spec['params'] if not _refs(p)]
                keep = roots[:1] if len(names) > 1 else []
            if not keep or len(keep) == len(names):
                continue        # single-parameter spec: no strict subset
            sel = [keep[j] for j in rng.permutation(len(keep))]
        i += 1
        yield {'spec': spec, 'mode': mode, 'sel': sel, 'pseed': int(rng.integers(0, 2 ** 31 - 1)),
               'stepsize': None if rng.random() < 0.7 else float(rng.choice([1e-4, 1e-6]))}


# ---------------------------------------------------------------------------------------
# reference (from the spec only)
def _args(p, col):
    return [col[a['ref']] if isinstance(a, dict) else a for a in p['args']]


def ref_cond_logpdf(spec, col, sel):
    """{name: conditional scipy logpdf rows} for the selected parameters."""
    out = {}
    with np.errstate(all='ignore'):
        for p in spec['params']:
            if p['name'] in sel:
                out[p['name']] = np.asarray(_scipy(p['dist']).logpdf(col[p['name']], *_args(p, col)), dtype=float)
    return out


def ref_cond_pdf(spec, col, sel):
    out = {}
    with np.errstate(all='ignore'):
        for p in spec['params']:
            if p['name'] in sel:
                out[p['name']] = np.asarray(_scipy(p['dist']).pdf(col[p['name']], *_args(p, col)), dtype=float)
    return out


def ref_logpdf_rows(spec, order, X):
    X = np.atleast_2d(np.asarray(X, dtype=float))
    col = {n: X[:, i] for i, n in enumerate(order)}
    c = ref_cond_logpdf(spec, col, set(order))
    with np.errstate(all='ignore'):
        return sum(c[n] for n in order)


def must_be_positive(spec):
    by = {p['name']: p for p in spec['params']}
    need = set()
    for p in spec['params']:
        slots = FAMILIES[p['dist']]
        for s, a in zip(slots, p['args']):
            if isinstance(a, dict) and s in ('pos', 'shape'):
                need.add(a['ref'])
    grew = True
    while grew:
        grew = False
        for n in list(need):
            p = by[n]
            for s, a in zip(FAMILIES[p['dist']], p['args']):
                if isinstance(a, dict) and s == 'loc' and a['ref'] not in need:
                    need.add(a['ref'])
                    grew = True
    return need


def gen_points(spec, n, seed):
    """Full-width points (all parameters, by name) mixing inside / boundary / outside values of
    each *conditional* support; returns (columns, per-row flags)."""
    rng = np.random.default_rng(seed)
    pos = must_be_positive(spec)
    col = {p['name']: np.zeros(n) for p in spec['params']}
    nbound = 0
    for r in range(n):
        all_inside = rng.random() < 0.35
        # deep-tail rows: every scipy parameter with an unbounded upper tail sits where its own conditional density is
        # about 1e-190 (> 0 in floating point); with two or more of them the PRODUCT underflows although no conditional
        # density is zero, so the log-density must still be finite there
        far_row = rng.random() < 0.06
        for p in spec['params']:
            args = [col[a['ref']][r] if isinstance(a, dict) else a for a in p['args']]
            d = _scipy(p['dist'])
            with np.errstate(all='ignore'):
                try:
                    lo, hi = d.support(*args)
                    lo, hi = float(lo), float(hi)
                except Exception:      # invalid arguments at this row
                    lo, hi = np.nan, np.nan
                inside = float(d.ppf(rng.uniform(0.03, 0.97), *args))
            if not np.isfinite(inside):
                inside = float(rng.uniform(0.5, 1.5))
            kind = 'in' if all_inside else str(rng.choice(['in', 'in', 'in', 'bd', 'out', 'out']))
            x = inside
            if kind == 'bd':
                ends = [e for e in (lo, hi) if np.isfinite(e)]
                if ends:
                    x = float(rng.choice(ends))
                    nbound += 1
            elif kind == 'out':
                ends = [(e, sgn) for e, sgn in ((lo, -1.0), (hi, 1.0)) if np.isfinite(e)]
                if ends:
                    e, sgn = ends[int(rng.integers(len(ends)))]
                    x = e + sgn * float(rng.choice([1e-9, 0.1, 1.0]))
                    if p['name'] in pos and x <= 0 and lo > 0:
                        x = lo * float(rng.uniform(0.1, 0.9))
            if far_row and p.get('form') != 'custom' and hi == np.inf:
                with np.errstate(all='ignore'):
                    xf = float(d.isf(1e-190, *args))
                if np.isfinite(xf) and np.isfinite(float(d.logpdf(xf, *args))):
                    x = xf
            if p['name'] in pos and not x > 1e-6:
                x = inside if inside > 1e-6 else float(rng.uniform(0.5, 1.5))
            col[p['name']][r] = x
    return col, nbound


# ---------------------------------------------------------------------------------------
def build(spec):
    import elfi
    m = elfi.ElfiModel(name='c08')
    made = {}
    for p in spec['params']:
        args = [made[a['ref']] if isinstance(a, dict) else a for a in p['args']]
        if p['form'] == 'custom':
            dist = _custom_norm()
            if p['dist'] == 'cunif':
                dist = _CUSTOM['u']
        elif p['form'] == 'obj':
            dist = getattr(ss, p['dist'])
        else:
            dist = p['dist']
        made[p['name']] = elfi.Prior(dist, *args, model=m, name=p['name'])
    if spec.get('with_sim'):
        S = elfi.Simulator(_sim, *[made[p['name']] for p in spec['params']], model=m, name='S', observed=np.zeros((1, 2)))
        elfi.Summary(_summ, S, model=m, name='s1')
    return m


def _sim(*theta, batch_size=1, random_state=None):
    return sum(np.asarray(t, dtype=float).reshape(-1, 1) for t in theta) + random_state.randn(batch_size, 2)


def _summ(x):
    return x.mean(axis=1)


def _draw_on_rounded_boundary(spec, order, row):
    """True when every zero-density coordinate of the draw equals a finite endpoint of its
    conditional support up to floating rounding (scipy's own sampler rounded loc + tiny to loc,
    e.g. a lognormal with a huge shape value inherited from a parent): not attributable to elfi."""
    col = {n: np.array([row[i]]) for i, n in enumerate(order)}
    found = False
    for p in spec['params']:
        if p['name'] not in col:
            continue
        d = _scipy(p['dist'])
        args = [float(col[a['ref']][0]) if isinstance(a, dict) else a for a in p['args']]
        x = float(col[p['name']][0])
        with np.errstate(all='ignore'):
            lp = float(d.logpdf(x, *args))
            if lp > -np.inf:
                continue
            if np.isnan(lp):
                return False
            lo, hi = d.support(*args)
        if not any(np.isfinite(e) and abs(x - float(e)) <= 1e-12 * (1.0 + abs(float(e))) for e in (lo, hi)):
            return False
        found = True
    return found


def _close(got, ref, rtol, atol):
    got = np.asarray(got, dtype=float)
    ref = np.asarray(ref, dtype=float)
    with np.errstate(all='ignore'):
        return (got == ref) | (np.abs(got - ref) <= atol + rtol * np.abs(ref))


def run_case(ctx, case):
    from elfi.model.extensions import ModelPrior
    spec = case['spec']
    names = [p['name'] for p in spec['params']]
    order = sorted(names) if case['sel'] is None else list(case['sel'])
    dim = len(order)
    sel = set(order)
    by = {p['name']: p for p in spec['params']}
    for n in order:                                   # guard: ancestrally closed
        if any(r not in sel for r in _refs(by[n])):
            raise Skip('subset not ancestrally closed')
    hier = any(_refs(by[n]) for n in order)
    m = build(spec)
    P = ModelPrior(m, None if case['sel'] is None else list(case['sel']))
    ctx.event('sel_' + case['mode'])
    if hier:
        ctx.event('specs_hierarchical')
    if any(by[n]['dist'] in ('cnorm', 'cunif') for n in order):
        ctx.event('specs_custom_dist')
    ctx.distinct('graph_shape', '%s|%s' % (case['mode'], sorted((by[n]['dist'], len(by[n]['args']), len(_refs(by[n]))) for n in order)))
    if P.dim != dim:
        raise Violation('dim', 'ModelPrior.dim=%r for %d requested parameters' % (P.dim, dim))

    col, nbound = gen_points(spec, NPTS, case['pseed'])
    X = np.column_stack([col[n] for n in order])
    cl = ref_cond_logpdf(spec, col, sel)
    cp = ref_cond_pdf(spec, col, sel)
    with np.errstate(all='ignore'):
        ref_l = sum(cl[n] for n in order)
        ref_p = np.prod([cp[n] for n in order], axis=0)
    L = np.column_stack([cl[n] for n in order])
    Pm = np.column_stack([cp[n] for n in order])
    valid = ~(np.isnan(L).any(1) | np.isnan(Pm).any(1) | np.isposinf(L).any(1) | np.isposinf(Pm).any(1))
    some_zero = np.isneginf(L).any(1)
    ctx.event('rows_excluded_invalid', int((~valid).sum()))
    if valid.sum() < 5:
        raise Skip('too few rows with valid conditional arguments')

    got_p = np.asarray(P.pdf(X))
    got_l = np.asarray(P.logpdf(X))
    # rows where one conditional density is zero AND another one has no value at all (a parent outside its own support
    # drives a child's scale/shape out of its domain): the product has a zero factor, so the statement demands 0 / -inf.
    # elfi multiplies 0 by nan there - recorded as a known finding (mechanism key below), any other answer is a violation.
    Lz = np.where(np.isnan(L), 0.0, L)
    inv_zero = ~valid & np.isneginf(Lz).any(1) & ~np.isposinf(L).any(1)
    for i in np.where(inv_zero)[0]:
        ctx.event('rows_zero_conditional_and_invalid_child')
        if got_p[i] == 0 and np.isneginf(got_l[i]):
            continue
        if (np.isnan(got_p[i]) or got_p[i] == 0) and (np.isnan(got_l[i]) or np.isneginf(got_l[i])):
            if not case.get('_known_reported'):
                case['_known_reported'] = True
                ctx.violation(KNOWN_NAN, 'pdf=%r logpdf=%r at a point where one conditional density is zero and a child of that parameter has '
                              'invalid arguments; the product of the conditional densities has a zero factor' % (got_p[i], got_l[i]),
                              {'order': order, 'x': X[i], 'conditional_logpdfs': {n: cl[n][i] for n in order}})
            continue
        raise Violation('pdf-zero-set', 'pdf=%r logpdf=%r at a point where a conditional density is zero (another conditional has invalid '
                        'arguments there)' % (got_p[i], got_l[i]), {'order': order, 'x': X[i]})
    # second evaluation: the value may not depend on an internal draw / state
    got_p2 = np.asarray(P.pdf(X))
    for nm, g in (('pdf', got_p), ('logpdf', got_l)):
        if g.shape != (NPTS,):
            raise Violation('shape-matrix', '%s of a (%d,%d) matrix has shape %s, expected (%d,)' % (nm, NPTS, dim, g.shape, NPTS))
    ctx.event('shape_checks', 2)

    def wit(i):
        return {'order': order, 'x': X[i], 'elfi_pdf': got_p[i], 'elfi_logpdf': got_l[i], 'ref_pdf': ref_p[i],
                'ref_logpdf': ref_l[i], 'conditional_logpdfs': {n: cl[n][i] for n in order}}

    # logpdf against the SUM of scipy logpdfs
    ok = _close(got_l, ref_l, 1e-9, 1e-9)
    bad = np.where(valid & ~ok)[0]
    if len(bad):
        i = int(bad[0])
        key = 'logpdf-zero-set' if (np.isneginf(got_l[i]) != np.isneginf(ref_l[i])) else 'logpdf-value'
        raise Violation(key, 'logpdf=%r but the sum of the conditional scipy logpdfs is %r (%s, requested %s)' % (
            got_l[i], ref_l[i], case['mode'], order), wit(i))
    ctx.event('logpdf_rows_checked', int(valid.sum()))
    ctx.event('rows_where_the_product_underflows_but_no_conditional_is_zero', int((valid & ~some_zero & (ref_l < -745)).sum()))
    # exact -inf set
    bad = np.where(valid & (np.isneginf(got_l) != some_zero))[0]
    if len(bad):
        i = int(bad[0])
        raise Violation('logpdf-zero-set', 'logpdf=%r but "some conditional logpdf is -inf" is %s' % (got_l[i], bool(some_zero[i])), wit(i))
    # pdf against the product, where the product does not underflow
    cmp_p = valid & (some_zero | (ref_l > -600))
    ok = _close(got_p, ref_p, 1e-9, 1e-300)
    bad = np.where(cmp_p & ~ok)[0]
    if len(bad):
        i = int(bad[0])
        key = 'pdf-zero-set' if ((got_p[i] == 0) != (ref_p[i] == 0)) else 'pdf-value'
        raise Violation(key, 'pdf=%r but the product of the conditional scipy pdfs is %r (%s, requested %s)' % (
            got_p[i], ref_p[i], case['mode'], order), wit(i))
    bad = np.where(cmp_p & ((got_p == 0) != some_zero))[0]
    if len(bad):
        i = int(bad[0])
        raise Violation('pdf-zero-set', 'pdf=%r but "some conditional pdf is zero" is %s' % (got_p[i], bool(some_zero[i])), wit(i))
    ctx.event('pdf_rows_checked', int(cmp_p.sum()))
    if not np.array_equal(got_p[valid], got_p2[valid]):
        i = int(np.where(valid & (got_p != got_p2))[0][0])
        raise Violation('pdf-not-a-function', 'two evaluations at the same point differ: %r vs %r' % (got_p[i], got_p2[i]), wit(i))
    nz, npos = int((valid & some_zero).sum()), int((valid & ~some_zero).sum())
    ctx.event('rows_zero_density', nz)
    ctx.event('rows_positive_density', npos)
    ctx.event('rows_boundary', nbound)

    # shapes: scalar / vector / matrix inputs
    vi = [int(i) for i in np.where(valid)[0][:4]]
    for fn, full, nm in ((P.pdf, got_p, 'pdf'), (P.logpdf, got_l, 'logpdf')):
        for i in vi:
            v = np.asarray(fn(X[i])) if dim > 1 else np.asarray(fn(float(X[i, 0])))
            if v.shape != ():
                raise Violation('shape-point', '%s of a single point (dim=%d) has shape %s, expected a scalar' % (nm, dim, v.shape), wit(i))
            if not (v == full[i] or (np.isnan(v) and np.isnan(full[i]))):
                raise Violation('shape-value', '%s of a single point %r differs from its row in the matrix call %r' % (nm, v, full[i]), wit(i))
            ctx.event('shape_checks')
        if dim == 1:
            v = np.asarray(fn(X[:, 0]))
            if v.shape != (NPTS,):
                raise Violation('shape-vector', '%s of a length-%d vector (dim=1) has shape %s' % (nm, NPTS, v.shape))
            if not np.array_equal(v[valid], full[valid]):
                raise Violation('shape-value', '%s of a vector differs from the matrix call (dim=1)' % nm)
            ctx.event('shape_checks')
        v = np.asarray(fn(X[vi[0]:vi[0] + 1]))
        if v.shape != (1,):
            raise Violation('shape-matrix', '%s of a (1,%d) matrix has shape %s, expected (1,)' % (nm, dim, v.shape))
        ctx.event('shape_checks')

    # rvs: requested shape, positive density
    rs = np.random.RandomState(case['pseed'] % (2 ** 31))
    for size in (None, 1, 7):
        R = np.asarray(P.rvs(size=size, random_state=rs)) if size is not None else np.asarray(P.rvs(random_state=rs))
        if size is None:
            exp_shape = () if dim == 1 else (dim,)
        else:
            exp_shape = (size,) if dim == 1 else (size, dim)
        if R.shape != exp_shape:
            raise Violation('rvs-shape', 'rvs(size=%r) has shape %s, expected %s (dim=%d)' % (size, R.shape, exp_shape, dim))
        ctx.event('shape_checks')
        R2 = R.reshape(-1, dim)
        rl = ref_logpdf_rows(spec, order, R2)
        badr = [int(i) for i in np.where(~(rl > -np.inf))[0]        # -inf or nan
                if not _draw_on_rounded_boundary(spec, order, R2[int(i)])]
        ctx.event('rvs_rows_on_rounded_boundary', int((~(rl > -np.inf)).sum()) - len(badr))
        if len(badr):
            i = int(badr[0])
            raise Violation('rvs-zero-density', 'a draw from the joint prior has reference log-density %r' % rl[i],
                            {'order': order, 'draw': R2[i]})
        gl = np.asarray(P.logpdf(R))
        exp_l = () if size is None else (size,)
        if gl.shape != exp_l:
            raise Violation('shape-rvs-roundtrip', 'logpdf(rvs(size=%r)) has shape %s, expected %s' % (size, gl.shape, exp_l))
        if not np.all(_close(gl.reshape(-1), rl, 1e-9, 1e-9) | ~(rl > -np.inf)):
            raise Violation('logpdf-value', 'logpdf at a draw differs from the reference', {'order': order, 'draws': R2, 'elfi': gl, 'ref': rl})
        ctx.event('rvs_rows_checked', len(R2))

    # gradient at interior points
    inter = []
    for i in np.where(valid & ~some_zero)[0]:
        x = X[i]
        if ref_l[i] < -400 or np.abs(x).max() > 1e6:
            continue      # deep-tail rows: a fixed-step finite difference (elfi's numgrad and the reference alike) has no accuracy there
        pts = np.vstack([x + s * MARGIN * np.eye(dim)[j] for j in range(dim) for s in (-1.0, 1.0)])
        if np.all(np.isfinite(ref_logpdf_rows(spec, order, pts))):
            inter.append(int(i))
        if len(inter) >= 5:
            break
    kw = {} if case.get('stepsize') is None else {'stepsize': case['stepsize']}
    for i in inter:
        x = X[i]
        g = np.asarray(P.gradient_logpdf(x if dim > 1 else float(x[0]), **kw), dtype=float)
        if g.size != dim:
            raise Violation('gradient-shape', 'gradient at one point has %d entries for dim=%d' % (g.size, dim), wit(i))
        g = g.reshape(-1)
        gref = np.zeros(dim)
        for j in range(dim):
            e = np.eye(dim)[j]
            f = ref_logpdf_rows(spec, order, np.vstack([x + 2 * HREF * e, x + HREF * e, x - HREF * e, x - 2 * HREF * e]))
            gref[j] = (-f[0] + 8 * f[1] - 8 * f[2] + f[3]) / (12 * HREF)
        if not np.all(np.abs(g - gref) <= 1e-4 * np.abs(gref) + 1e-5):
            raise Violation('gradient-value', 'gradient_logpdf=%s but the derivative of the reference log-density is %s' % (g, gref), wit(i))
        ctx.event('grad_points_checked')
        # the same at an integer-TYPED point (np.array([0, 1]), a plain int): the nearest lattice point, when it is interior too
        xi = np.round(x)
        nb = np.vstack([xi + s_ * MARGIN * np.eye(dim)[j] for j in range(dim) for s_ in (-1.0, 1.0)] + [xi])
        lp_i = ref_logpdf_rows(spec, order, nb)
        if np.all(np.isfinite(lp_i)) and lp_i[-1] > -400:
            gi = np.asarray(P.gradient_logpdf(xi.astype(np.int64) if dim > 1 else int(xi[0]), **kw), dtype=float).reshape(-1)
            gri = np.zeros(dim)
            for j in range(dim):
                e = np.eye(dim)[j]
                f = ref_logpdf_rows(spec, order, np.vstack([xi + 2 * HREF * e, xi + HREF * e, xi - HREF * e, xi - 2 * HREF * e]))
                gri[j] = (-f[0] + 8 * f[1] - 8 * f[2] + f[3]) / (12 * HREF)
            if gi.size != dim or not np.all(np.abs(gi - gri) <= 1e-4 * np.abs(gri) + 1e-5):
                raise Violation('gradient-value', 'gradient_logpdf at the integer-typed point %s is %s but the derivative of the reference '
                                'log-density there is %s' % (xi.astype(np.int64), gi, gri), wit(i))
            ctx.event('grad_integer_typed_points_checked')
        # ... and at a float32 point (exactly representable in float64): same derivative as at the same point in float64
        x32 = x.astype(np.float32)
        xf = x32.astype(float)
        nb = np.vstack([xf + s_ * MARGIN * np.eye(dim)[j] for j in range(dim) for s_ in (-1.0, 1.0)] + [xf])
        lp_f = ref_logpdf_rows(spec, order, nb)
        if np.all(np.isfinite(lp_f)) and lp_f[-1] > -400 and np.abs(xf).max() < 1e6:
            g32 = np.asarray(P.gradient_logpdf(x32 if dim > 1 else x32[0], **kw), dtype=float).reshape(-1)
            gr32 = np.zeros(dim)
            for j in range(dim):
                e = np.eye(dim)[j]
                f = ref_logpdf_rows(spec, order, np.vstack([xf + 2 * HREF * e, xf + HREF * e, xf - HREF * e, xf - 2 * HREF * e]))
                gr32[j] = (-f[0] + 8 * f[1] - 8 * f[2] + f[3]) / (12 * HREF)
            if g32.size != dim or not np.all(np.abs(g32 - gr32) <= 1e-4 * np.abs(gr32) + 1e-5):
                raise Violation('gradient-value', 'gradient_logpdf at the float32 point %s is %s but the derivative of the reference '
                                'log-density there is %s' % (x32, g32, gr32), wit(i))
            ctx.event('grad_float32_points_checked')
    if len(inter) >= 2:
        G = np.asarray(P.gradient_logpdf(X[inter] if dim > 1 else X[inter], **kw), dtype=float)
        if G.size != len(inter) * dim:
            raise Violation('gradient-shape', 'gradient of a (%d,%d) matrix has %d entries' % (len(inter), dim, G.size))
        G1 = np.vstack([np.asarray(P.gradient_logpdf(X[i] if dim > 1 else float(X[i, 0]), **kw), dtype=float).reshape(-1) for i in inter])
        if not np.allclose(G.reshape(len(inter), dim), G1, rtol=1e-7, atol=1e-7):
            raise Violation('gradient-rows', 'gradient of a matrix differs from the per-point gradients', {'matrix': G, 'points': G1})
        ctx.event('shape_checks')
        # a matrix query in which rows outside the support come before, between and after the interior rows: the row of an
        # interior point must still be that point's gradient (rows outside the support are not judged)
        outs = [int(i) for i in np.where(valid & some_zero)[0][:3]]
        if outs and dim > 1:
            rows, where_inter = [], []
            for j, i in enumerate(inter):
                rows.append(X[outs[j % len(outs)]])
                where_inter.append(len(rows))
                rows.append(X[i])
            rows.append(X[outs[0]])
            Gm = np.asarray(P.gradient_logpdf(np.array(rows), **kw), dtype=float)
            if Gm.shape != (len(rows), dim) or not np.allclose(Gm[where_inter], G1, rtol=1e-7, atol=1e-7):
                raise Violation('gradient-rows', 'gradient of a matrix with rows inside and outside the support: the rows of the interior points '
                                'differ from the per-point gradients', {'matrix': Gm, 'interior_rows': where_inter, 'points': G1})
            ctx.event('grad_mixed_inside_outside_matrices')
    ctx.nontrivial((dim >= 2 or hier) and nz > 0 and npos > 0)
