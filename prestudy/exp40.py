import compat, numpy as np, warnings
warnings.simplefilter('ignore')
from elfi.methods.mcmc import eff_sample_size as ess, gelman_rubin_statistic as rhat
from elfi.methods.results import Sample
from elfi.methods.post_processing import adjust_posterior
import elfi
rs=np.random.RandomState(1)
def ess_ref(ch):
    ch=np.atleast_2d(ch); M,N=ch.shape; mu=ch.mean(1); var=ch.var(1,ddof=1)
    B=0 if M==1 else N*np.var(mu,ddof=1); W=var.mean(); vp=((N-1)*W+B)/N
    s=0.0; amb=False
    for lag in range(1,N):
        ac=np.mean([np.sum((ch[m,:N-lag]-mu[m])*(ch[m,lag:]-mu[m]))/(N-lag) for m in range(M)])
        t=1-(W-ac)/vp
        if abs(t)<1e-9: amb=True
        if t>=0: s+=t
        else: break
    return M*N/(1+2*s), amb
bad=0; amb=0; n=0
for it in range(3000):
    M=rs.randint(1,5); N=rs.randint(4,80); rho=rs.uniform(-0.5,0.95)
    ch=np.zeros((M,N)); e=rs.randn(M,N)
    for t in range(1,N): ch[:,t]=rho*ch[:,t-1]+e[:,t]
    ch+=rs.randn(M,1)*rs.uniform(0,1)
    r,a=ess_ref(ch); g=ess(ch); n+=1
    if a: amb+=1; continue
    if not np.isclose(g,r,rtol=1e-8): bad+=1; print('ESS ref mismatch',M,N,g,r)
    sc=rs.uniform(0.1,10)*rs.choice([-1,1]); sh=rs.uniform(-5,5)
    g2=ess(sc*ch+sh); g3=ess(ch[rs.permutation(M)])
    if not (np.isclose(g,g2,rtol=1e-8) and np.isclose(g,g3,rtol=1e-8)):
        bad+=1; print('ESS invariance',M,N,g,g2,g3)
    if N>=4:
        h=rhat(ch); h2=rhat(sc*ch+sh); h3=rhat(ch[rs.permutation(M)])
        if not (np.isclose(h,h2,rtol=1e-8) and np.isclose(h,h3,rtol=1e-8)): bad+=1; print('Rhat inv',h,h2,h3)
print('ess/rhat n',n,'bad',bad,'ambiguous',amb)
# regression affine invariance
m=elfi.ElfiModel(name='m'); t1=elfi.Prior('uniform',0,1,model=m,name='t1')
def sim(a,batch_size=1,random_state=None): return random_state.randn(batch_size,3)
obs=np.array([[0.3,0.6,-0.2]])
S=elfi.Simulator(sim,t1,observed=obs,model=m,name='S')
for j in range(3): elfi.Summary((lambda j: (lambda x: x[:,j]))(j),S,model=m,name='s%d'%j)
bad=0
for it in range(300):
    n=rs.randint(6,60); k=rs.randint(1,4)
    X=rs.randn(n,3); th=rs.rand(n)+X[:,:k]@rs.randn(k)
    outs={'t1':th,'d':rs.rand(n)}
    for j in range(3): outs['s%d'%j]=X[:,j].copy()
    if rs.rand()<0.5: outs['s0'][rs.randint(n)]=np.nan
    smp=Sample('R',outs,['t1'],discrepancy_name='d',n_sim=100)
    names=['s%d'%j for j in range(k)]
    adj=adjust_posterior(smp,m,names).outputs['t1']
    Xd=np.column_stack([outs[nm] for nm in names])-obs[:,:k]
    fin=np.isfinite(Xd).all(1)&np.isfinite(th)
    A=np.column_stack([np.ones(fin.sum()),Xd[fin]])
    if np.linalg.cond(A)>1e6 or fin.sum()<k+2: continue
    coef=np.linalg.lstsq(A,th[fin],rcond=None)[0][1:]
    ref=th[fin]-Xd[fin]@coef
    if not np.allclose(adj,ref,rtol=1e-6,atol=1e-9): bad+=1; print('adj mismatch',n,k,np.abs(adj-ref).max())
print('regression bad',bad)
