"""C15 - Batch sub-seeds are distinct and depend only on (seed, index).

Contract + history monitor on the real ``elfi.utils.get_sub_seed`` (attached to every elfi module
that imported it by name, so calls made by ``RandomStateLoader.load`` and ``tools.prepare_seed``
are observed as well).  Every observed return value is entered into one table per (master seed,
high); the monitor demands, online,

* range: the value is an integer in [0, high);
* history/cache independence: every value observed for the same (seed, high, index) - from calls
  without a cache and from calls under every cache history - is the same;
* distinctness: two different indices of one (seed, high) never carry the same value;

and the harness additionally demands that an index >= high, or a negative one, raises (with and
without a cache) and that the shared cache still serves the agreed values afterwards.

Workload: the sub-space high in 1..6 x all index sequences of length <= 4 over one shared cache x
>= 64 master seeds is enumerated completely in BOTH tiers (collisions in the draw stream are
forced there); random increasing / decreasing / repeated / jumping / mixed sequences for larger
ranges (up to index 3000); sequences driven through the loader with a ComputationContext cache.
See DESIGN.md section 5 / C15.
"""
import itertools

import numpy as np

from vmon import contracts
from vmon.core import Violation

PROPERTY = 'C15'
LEVEL = 'exploration'
TECHNIQUE = ('runtime monitoring: icontract post-condition + online history monitor on the real get_sub_seed (all holders), '
             'exhaustive small-range index histories plus random histories, loader/prepare_seed driven internally')
LEVEL_TEXT = ('Held on every observed call: each return value of the real get_sub_seed is checked for range and entered into a '
              'per-(seed, high) table that must stay a consistent injective map index -> value across no-cache calls and all cache '
              'histories; out-of-range and negative indices must raise. Exploration overall (random seeds / ranges / histories); the '
              'small-range sub-space described in exhaustive_note is enumerated completely.')
LEVEL_NOTE = ('trusts: numpy RandomState; a draw-budget proxy for elfi.utils.np turns a call that would never return into a '
              'deterministic observation (no wall-clock verdicts). Exhaustive only for the sub-space in exhaustive_note; '
              'for high = 2**31 collisions in the draw stream practically never occur (that is why the small ranges are enumerated).')
EXHAUSTIVE_NOTE = ('enumerated completely in both tiers: high in 1..6 x every index sequence of length 1..4 over range(high) '
                   'sharing one cache (fresh cache per sequence) x 64 master seeds (0..31 and 32 seeds derived from VERIF_SEED; '
                   'thorough: 192 master seeds), compared against the no-cache value of every index 0..high-1; plus rejection '
                   'probes (index high, high+1, high+7, -1, -2; with and without a used cache) for each (high, master seed). '
                   'Everything else in this check (larger ranges, long histories, loader-driven calls) is random exploration.')
RULE = ('cases = (a) exhaustive block: one (high in 1..6, master seed) pair with all index sequences up to length 4 over a shared cache; '
        '(b) random histories: master seed x high in {7, 8, 10, 100, 2**8, 2**16, 2**31 (explicit or default)} x 1-3 index sequences '
        '(increasing, decreasing, repeated, jumping, mixed, full sweep, occasionally containing rejected indices) each over its own '
        'shared cache, max index up to 3000; (c) loader: index sequences served through RandomStateLoader.load with the '
        "ComputationContext's cache and through tools.prepare_seed; distinct = hash of the case; non-trivial = some sequence has a "
        'non-monotone step or a repeated index, or the draw stream of (seed, high) collides before the largest requested index is served')
ASSUMPTIONS = ['master seeds are ints in [0, 2**32) (what numpy RandomState accepts); one cache is only ever used with one (seed, high)',
               'rejection = any exception raised by the call; a call exceeding the draw budget (more than 10000 + 400*(min(index, 5000)+1) draws; 20000 for an index that must be refused) counts as not returning',
               'collision counter is computed by the harness from numpy RandomState(seed).randint(high, dtype=uint32) (coverage only, not an oracle)']
CONFIG = {
    'quick': {'shards': 16, 'cases': 40, 'timeout': 600, 'floor': 300, 'exh_seeds': 64},
    'thorough': {'shards': 32, 'cases': 1000, 'timeout': 5400, 'floor': 6000, 'exh_seeds': 192},
}
REQUIRED = ['contract_get_sub_seed', 'calls_nocache', 'calls_cached', 'agreements_checked', 'distinct_pairs_checked',
            'rejections_observed', 'rejections_negative', 'rejections_with_cache', 'exh_sequences', 'exh_blocks',
            'stream_collisions', 'rand_sequences', 'steps_decreasing', 'steps_repeated', 'steps_jump_up',
            'loader_calls', 'prepare_seed_calls', 'internal_holder_calls', 'full_range_permutations']

EXH_HIGHS = (1, 2, 3, 4, 5, 6)
EXH_MAXLEN = 4
RAND_HIGHS = [7, 8, 10, 100, 2 ** 8, 2 ** 16, 2 ** 31, None]      # None = default argument (2**31)


# ----------------------------------------------------------------------------------------------
# draw-budget proxy: a RandomState that counts draws, installed as elfi.utils.np.random.RandomState
# only while this module drives get_sub_seed.  It never changes a drawn value.

class DrawBudgetExceeded(Exception):
    pass


class _Meta(type(np.random.RandomState)):
    def __instancecheck__(cls, inst):
        return isinstance(inst, np.random.RandomState)


class _Budget:
    left = None


class CountingRandomState(np.random.RandomState, metaclass=_Meta):
    def randint(self, low, high=None, size=None, dtype=int):
        n = 1 if size is None else int(np.prod(size))
        if n >= 0 and _Budget.left is not None:
            _Budget.left -= n
            if _Budget.left < 0:
                raise DrawBudgetExceeded()
        return super().randint(low, high, size, dtype)


class _Proxy:
    def __init__(self, target, **over):
        self.__dict__['_t'] = target
        self.__dict__['_o'] = over

    def __getattr__(self, name):
        o = self.__dict__['_o']
        if name in o:
            return o[name]
        return getattr(self.__dict__['_t'], name)


class budget_np:
    """Context manager: elfi.utils.np -> proxy whose random.RandomState counts draws."""

    def __enter__(self):
        import elfi.utils as eu
        self.eu = eu
        self.orig = eu.np
        eu.np = _Proxy(self.orig, random=_Proxy(self.orig.random, RandomState=CountingRandomState))
        return self

    def __exit__(self, *exc):
        self.eu.np = self.orig
        _Budget.left = None
        return False


def _budget(index):
    # in-range indices driven here are <= 3000; refused indices may be huge (2**31 + k) and must not be
    # given a budget that would let a non-refusing implementation allocate 2**31 draws
    return 10000 + 400 * (min(max(int(index), 0), 5000) + 1)


# ----------------------------------------------------------------------------------------------
# the monitor

class Monitor:
    def __init__(self, ctx):
        self.ctx = ctx
        self.by_index = {}      # (seed, high) -> {index: (value, tag)}
        self.by_value = {}      # (seed, high) -> {value: index}
        self.tag = None         # harness-side description of the current history (witness only)
        self.origin = 'direct'

    def post(self, result, seed, sub_seed_index, high, cache):
        ctx = self.ctx
        try:
            in_range = bool(0 <= result < high) and int(result) == result
        except Exception:
            in_range = False
        if not in_range:
            raise Violation('range', 'get_sub_seed(%r, %r, high=%r) returned %r, not an integer in [0, high)' % (
                seed, sub_seed_index, high, result), self.witness(seed, high, sub_seed_index, result, cache))
        v = int(result)
        i = int(sub_seed_index)
        key = (int(seed), int(high))
        cached = cache is not None
        ctx.event('calls_cached' if cached else 'calls_nocache')
        if self.origin != 'direct':
            ctx.event('internal_holder_calls')
        tab = self.by_index.setdefault(key, {})
        val = self.by_value.setdefault(key, {})
        if i in tab:
            ctx.event('agreements_checked')
            if tab[i][0] != v:
                w = self.witness(seed, high, i, v, cache)
                w['earlier_value'] = tab[i][0]
                w['earlier_history'] = tab[i][1]
                raise Violation('history-dependence',
                                'seed=%d high=%d index=%d: value %d here (%s) but %d earlier (%s)' % (
                                    key[0], key[1], i, v, self.describe(cached), tab[i][0], tab[i][1]), w)
        else:
            ctx.event('distinct_pairs_checked', len(tab))
            if v in val and val[v] != i:
                w = self.witness(seed, high, i, v, cache)
                w['other_index'] = val[v]
                raise Violation('collision', 'seed=%d high=%d: indices %d and %d both receive derived seed %d' % (
                    key[0], key[1], val[v], i, v), w)
            tab[i] = (v, self.describe(cached))
            val[v] = i
        return True

    def describe(self, cached):
        return '%s%s history=%s' % (self.origin + ' ', 'cache' if cached else 'no cache', self.tag)

    def witness(self, seed, high, index, value, cache):
        return {'seed': int(seed), 'high': int(high), 'index': int(index), 'value': repr(value),
                'cached': cache is not None, 'history': self.tag, 'origin': self.origin}


def _call(gs, seed, index, high, cache=None, use_cache=False):
    """One in-range call under the draw budget; high=None means 'leave the default'."""
    _Budget.left = _budget(index)
    kw = {}
    if high is not None:
        kw['high'] = high
    if use_cache:
        kw['cache'] = cache
    try:
        return gs(seed, index, **kw)
    except DrawBudgetExceeded:
        raise Violation('does-not-return', 'get_sub_seed(%d, %d, high=%r, cache=%s) consumed more than %d draws without returning' % (
            seed, index, high, 'shared' if use_cache else None, _budget(index)),
            {'seed': seed, 'index': index, 'high': high, 'cached': use_cache})
    finally:
        _Budget.left = None


REJECT_BUDGET = 20000     # draws allowed to a call that has to refuse its index


def _expect_reject(ctx, gs, mon, seed, index, high, cache=None, use_cache=False):
    _Budget.left = REJECT_BUDGET
    kw = {}
    if high is not None:
        kw['high'] = high
    if use_cache:
        kw['cache'] = cache
    eff = 2 ** 31 if high is None else high
    what = 'negative index' if index < 0 else 'index >= high'
    try:
        r = gs(seed, index, **kw)
    except Violation as v:
        # the contract saw a value being returned for an index that cannot be served
        raise Violation('not-rejected', '%s not rejected: get_sub_seed(%d, %d, high=%d) returned (%s)' % (what, seed, index, eff, v.msg),
                        {'seed': seed, 'index': index, 'high': eff, 'cached': use_cache, 'history': mon.tag})
    except DrawBudgetExceeded:
        raise Violation('not-rejected', '%s not rejected: get_sub_seed(%d, %d, high=%d) kept drawing (more than %d draws) instead of raising' % (
            what, seed, index, eff, REJECT_BUDGET), {'seed': seed, 'index': index, 'high': eff, 'cached': use_cache, 'history': mon.tag})
    except Exception:
        ctx.event('rejections_observed')
        if index < 0:
            ctx.event('rejections_negative')
        if use_cache:
            ctx.event('rejections_with_cache')
        return
    finally:
        _Budget.left = None
    raise Violation('not-rejected', '%s not rejected: get_sub_seed(%d, %d, high=%d) returned %r' % (what, seed, index, eff, r),
                    {'seed': seed, 'index': index, 'high': eff, 'cached': use_cache, 'history': mon.tag})


def _collides(seed, high, imax):
    """Coverage only: does the numpy draw stream repeat a value within its first imax+1 draws?"""
    if imax < 1:
        return False
    d = np.random.RandomState(seed).randint(high, size=imax + 1, dtype='uint32')
    return len(np.unique(d)) < len(d)


def _seq_flags(ctx, seq, high):
    nonmono = rep = False
    seen = set()
    prev = None
    for i in seq:
        if not (0 <= i < high):
            continue
        if i in seen:
            rep = True
            ctx.event('steps_repeated')
        elif prev is not None and i < prev:
            nonmono = True
            ctx.event('steps_decreasing')
        elif prev is not None and i > prev + 1:
            ctx.event('steps_jump_up')
        seen.add(i)
        prev = i
    return nonmono or rep


# ----------------------------------------------------------------------------------------------
# case generation

def _exh_seeds(ctx):
    n = int(ctx.cfg.get('exh_seeds', 64))
    fixed = list(range(32))
    rng = np.random.default_rng(np.random.SeedSequence([ctx.seed, 15, 424242]))
    extra = set()
    while len(extra) < n - len(fixed):
        extra.add(int(rng.integers(32, 2 ** 32)))
    return fixed + sorted(extra)


def _gen_seq(rng, high, imax):
    top = min(high - 1, imax)
    style = str(rng.choice(['increasing', 'decreasing', 'repeated', 'jumping', 'mixed', 'consecutive']))
    n = int(rng.integers(2, 40))
    pool = rng.integers(0, top + 1, size=n)
    if style == 'increasing':
        seq = sorted(set(int(x) for x in pool))
    elif style == 'decreasing':
        seq = sorted(set(int(x) for x in pool), reverse=True)
    elif style == 'repeated':
        base = [int(x) for x in pool[:max(1, n // 3)]]
        seq = [int(rng.choice(base)) for _ in range(n)]
    elif style == 'jumping':
        seq = [int(x) for x in pool]
    elif style == 'consecutive':
        a = int(rng.integers(0, top + 1))
        b = min(top, a + int(rng.integers(1, 60)))
        seq = list(range(a, b + 1))
        if rng.random() < 0.5:
            seq = [0] + seq
    else:
        inc = sorted(set(int(x) for x in pool[:n // 2 + 1]))
        seq = inc + [int(x) for x in pool[n // 2:]] + inc[::-1][:3]
    bad = None
    if rng.random() < 0.15 and seq:
        # a rejected request in the middle of the history: later answers must not change
        bad = int(rng.choice([high, high + 1, high + 5, -1, -2, -3]))
        seq.insert(int(rng.integers(0, len(seq) + 1)), bad)
    return style, seq


def _rand_seed(rng):
    r = rng.random()
    if r < 0.1:
        return int(rng.choice([0, 1, 2 ** 31 - 1, 2 ** 31, 2 ** 32 - 1]))
    if r < 0.3:
        return int(rng.integers(0, 1000))
    return int(rng.integers(0, 2 ** 32))


def gen_cases(ctx):
    rng = ctx.rng
    # (a) the exhaustive sub-space, the same in both tiers (more master seeds in thorough), dealt round-robin
    blocks = [(s, h) for s in _exh_seeds(ctx) for h in EXH_HIGHS]
    for k, (s, h) in enumerate(blocks):
        if k % ctx.nshards == ctx.shard:
            yield {'kind': 'exh', 'mseed': s, 'high': h, 'maxlen': EXH_MAXLEN}
    # (b) random histories, (c) loader-driven
    for k in range(ctx.ncases):
        mseed = _rand_seed(rng)
        if k % 5 == 4:
            imax = int(rng.choice([20, 100, 400]))
            n = int(rng.integers(3, 40))
            seq = [int(x) for x in rng.integers(0, imax + 1, size=n)]
            if rng.random() < 0.5:
                seq = sorted(seq, reverse=bool(rng.random() < 0.5))
            yield {'kind': 'loader', 'mseed': mseed, 'seq': seq,
                   'in_batch': [int(x) for x in rng.integers(0, 50, size=int(rng.integers(2, 12)))]}
            continue
        high = RAND_HIGHS[int(rng.integers(0, len(RAND_HIGHS)))]
        eff = 2 ** 31 if high is None else high
        imax = int(rng.choice([10, 100, 1000, 3000], p=[0.3, 0.4, 0.2, 0.1]))
        seqs = []
        for _ in range(int(rng.integers(1, 4))):
            style, seq = _gen_seq(rng, eff, imax)
            seqs.append({'style': style, 'idx': seq})
        if eff <= 256 and rng.random() < 0.6:
            full = list(range(eff))
            if rng.random() < 0.5:
                full = [int(x) for x in rng.permutation(eff)]
            seqs.append({'style': 'full-range', 'idx': full})
        yield {'kind': 'rand', 'mseed': mseed, 'high': high, 'seqs': seqs,
               'probe': [int(eff + d) for d in (0, 1, int(rng.integers(2, 1000)))] + [-1, -int(rng.integers(2, 50))]}


# ----------------------------------------------------------------------------------------------
# case execution

def _run_exh(ctx, case, gs, mon):
    s, high, maxlen = case['mseed'], case['high'], case['maxlen']
    mon.tag = 'no-cache reference'
    base = [int(_call(gs, s, i, high)) for i in range(high)]
    if sorted(base) != list(range(high)):
        # all of [0, high) must be used up when every index is served (range + distinctness)
        raise Violation('collision', 'seed=%d high=%d: values for indices 0..high-1 are %s, not a permutation of range(high)' % (s, high, base),
                        {'seed': s, 'high': high, 'values': base})
    ctx.event('full_range_permutations')
    nseq = 0
    for L in range(1, maxlen + 1):
        for seq in itertools.product(range(high), repeat=L):
            cache = {}
            mon.tag = list(seq)
            for i in seq:
                _call(gs, s, i, high, cache, True)
            _seq_flags(ctx, seq, high)
            nseq += 1
    ctx.event('exh_sequences', nseq)
    ctx.event('exh_blocks')
    ctx.distinct('exh_block', 'high%d' % high)
    # rejection probes, without a cache and with a cache in several states
    for bad in (high, high + 1, high + 7, -1, -2):
        mon.tag = ['reject-probe', bad]
        _expect_reject(ctx, gs, mon, s, bad, high)
        for warm in ((), (0,), tuple(range(high)), (high - 1,)):
            cache = {}
            mon.tag = list(warm) + ['reject', bad]
            for i in warm:
                _call(gs, s, i, high, cache, True)
            _expect_reject(ctx, gs, mon, s, bad, high, cache, True)
            # the cache must still serve the agreed values after the refused request
            for i in (high - 1, 0):
                _call(gs, s, i, high, cache, True)
    if _collides(s, high, high - 1):
        ctx.event('stream_collisions')
    ctx.nontrivial(True)


def _run_rand(ctx, case, gs, mon):
    s, high = case['mseed'], case['high']
    eff = 2 ** 31 if high is None else high
    nontrivial = False
    imax = -1
    for sq in case['seqs']:
        seq = sq['idx']
        valid = [i for i in seq if 0 <= i < eff]
        cache = {}
        mon.tag = {'style': sq['style'], 'prefix': []}
        got = {}
        for pos, i in enumerate(seq):
            mon.tag = {'style': sq['style'], 'history_before': seq[max(0, pos - 12):pos], 'n_before': pos}
            if 0 <= i < eff:
                got[i] = int(_call(gs, s, i, high, cache, True))
            else:
                _expect_reject(ctx, gs, mon, s, i, high, cache, True)
        # no-cache reference for (a sample of) the served indices, after the cached history so that
        # the first observation of an index comes from the cache in some cases and from the reference in others
        ref_idx = sorted(set(valid))
        if len(ref_idx) > 60:
            pick = np.random.default_rng(s % 1000 + len(ref_idx)).choice(len(ref_idx), size=60, replace=False)
            ref_idx = [ref_idx[j] for j in sorted(pick)]
        mon.tag = 'no-cache reference'
        for i in ref_idx:
            _call(gs, s, i, high)
        ctx.event('rand_sequences')
        ctx.distinct('style_high', '%s|%s' % (sq['style'], 'default' if high is None else high))
        if sq['style'] == 'full-range' and len(got) == eff:
            if sorted(got.values()) != list(range(eff)):
                raise Violation('collision', 'seed=%d high=%d: the values of all indices are not a permutation of range(high)' % (s, eff),
                                {'seed': s, 'high': eff})
            ctx.event('full_range_permutations')
        if _seq_flags(ctx, seq, eff):
            nontrivial = True
        if valid:
            imax = max(imax, max(valid))
    for bad in case['probe']:
        mon.tag = ['reject-probe', bad]
        _expect_reject(ctx, gs, mon, s, bad, high)
    if imax >= 1 and _collides(s, eff, imax):
        ctx.event('stream_collisions')
        nontrivial = True
    ctx.nontrivial(nontrivial)


def _run_loader(ctx, case, gs, mon):
    import networkx as nx
    import elfi.loader as loader
    import elfi.model.tools as tools
    from elfi.model.elfi_model import ComputationContext
    s = case['mseed']
    seq = case['seq']
    context = ComputationContext(batch_size=1, seed=s)
    net = nx.DiGraph()
    net.add_node('_random_state')
    states = {}

    def key(rs):
        st = rs.get_state()
        return (st[0], st[1].tobytes(), st[2], st[3], st[4])

    mon.origin = 'RandomStateLoader.load'
    try:
        for pos, i in enumerate(seq):
            mon.tag = {'loader_history_before': seq[max(0, pos - 12):pos], 'n_before': pos}
            _Budget.left = _budget(i)
            loader.RandomStateLoader.load(context, net, i)
            _Budget.left = None
            kk = key(net.nodes['_random_state']['output'])
            if i in states and states[i] != kk:
                raise Violation('history-dependence', 'loader: batch %d under master seed %d is handed a different generator when it is requested '
                                'again later in the history' % (i, s), {'seed': s, 'index': i, 'history': seq[:pos + 1]})
            states[i] = kk
            ctx.event('loader_calls')
    finally:
        mon.origin = 'direct'
        _Budget.left = None
    # reference: the same batch index served by a fresh context (empty cache, no history), and the
    # no-cache get_sub_seed value for the monitor's table; generators of different batches must differ
    mon.origin = 'RandomStateLoader.load (fresh context)'
    by_state = {}
    try:
        for i in sorted(set(seq)):
            mon.tag = {'fresh_context_index': i}
            fresh = ComputationContext(batch_size=1, seed=s)
            net2 = nx.DiGraph()
            net2.add_node('_random_state')
            _Budget.left = _budget(i)
            loader.RandomStateLoader.load(fresh, net2, i)
            _Budget.left = None
            if key(net2.nodes['_random_state']['output']) != states[i]:
                raise Violation('history-dependence', 'loader: generator handed to batch %d under master seed %d after the history differs from the one '
                                'a fresh context hands to the same batch' % (i, s), {'seed': s, 'index': i, 'history': seq})
            other = by_state.setdefault(states[i], i)
            if other != i:
                raise Violation('collision', 'loader: batches %d and %d under master seed %d receive identical generators' % (other, i, s),
                                {'seed': s, 'indices': [other, i]})
    finally:
        mon.origin = 'direct'
        _Budget.left = None
    mon.tag = 'no-cache reference'
    for i in sorted(set(seq)):
        _call(gs, s, i, None)
    # tools.prepare_seed: derived from the batch generator's seed and index_in_batch, no cache
    bseed = int(_call(gs, s, seq[0], None))
    mon.origin = 'tools.prepare_seed'
    try:
        for k in case['in_batch']:
            mon.tag = {'prepare_seed_index_in_batch': k}
            _Budget.left = _budget(k)
            _, kw = tools.prepare_seed(random_state=np.random.RandomState(bseed), index_in_batch=k)
            _Budget.left = None
            ctx.event('prepare_seed_calls', 'seed' in kw)
    finally:
        mon.origin = 'direct'
        _Budget.left = None
    mon.tag = 'no-cache reference'
    for k in sorted(set(case['in_batch'])):
        _call(gs, bseed, k, None)
    if _seq_flags(ctx, seq, 2 ** 31):
        ctx.nontrivial(True)


def run_case(ctx, case):
    import elfi.utils as eu
    mon = Monitor(ctx)
    spec = contracts.Spec('elfi.utils', 'get_sub_seed', post=mon.post, prop='C15')
    with budget_np(), contracts.attached(ctx, spec):
        gs = eu.get_sub_seed          # the contract-carrying function object
        if case['kind'] == 'exh':
            _run_exh(ctx, case, gs, mon)
        elif case['kind'] == 'rand':
            _run_rand(ctx, case, gs, mon)
        else:
            _run_loader(ctx, case, gs, mon)
