"""C10 - BOLFI posterior matches its definition; the fast GP path equals the GP.

Reference-model monitors on real GPyRegression / BolfiPosterior objects:
 (i)  definition: logpdf(x) == logcdf((h - mu)/sigma) + log prior with (mu, sigma^2) from the
      surrogate's own predict() in the mode it is in; -inf outside the bounds; gradient vs a
      Richardson difference of logpdf itself, finite wherever logpdf is;
 (ii) fast path == library: predict / predictive_gradients with is_sampling on vs the GPy object
      called directly, under histories of update()/optimize()/is_sampling toggles;
 (iii) evidence after each update == concatenation of everything passed in, in order.
"""
import math

import numpy as np
import scipy.stats as ss

from vmon.core import Skip, Violation

PROPERTY = 'C10'
LEVEL = 'exploration'
TECHNIQUE = ('runtime monitoring: reference-model monitors on real GPyRegression/BolfiPosterior objects (definition check against the surrogate\'s own '
             'prediction + scipy prior, fast path vs the GPy object, Richardson differences for gradients, evidence-order history monitor) over generated '
             'evidence sets, update/optimise/toggle histories and query points')
LEVEL_TEXT = ('Held on every generated surrogate: GPs are fitted by the real code on random evidence (1-4 d), updated/optimised in several steps with '
              'the sampling flag toggled in between; at inside/outside/on-bound query points of scalar/1-D/2-D shape the log-posterior, its gradient, the '
              'accelerated prediction and gradients and the stored evidence are compared with independent references. Sampled, not exhaustive.')
LEVEL_NOTE = ('trusts: GPy as the definition of the Gaussian process, scipy norm.logcdf and prior densities; tolerances as in DESIGN.md C10 (variance '
              'absolute tolerance 1e-8 x (kernel variance + bias)); numerically degenerate kernel matrices (LinAlgError) are skipped and counted')
RULE = ('cases = evidence set (8-40 points, 1-4 d, smooth/noisy target, optimum inside or on a face/corner) x bounds x prior (uniform on the bounds | '
        'normal wider than the bounds) x threshold (percentile of the evidence | default) x history of 2-4 update steps (optimise or not, sampling '
        'flag toggled, fast prediction before and after) x 16 query points; every third case is a BOLFI run end to end (fit, sample with Metropolis|NUTS, add evidence, sample again; LCBSC or an acquisition rule that never predicts) with the definition and fast-path contracts attached to the real methods; distinct = hash of the case; non-trivial = GP with >= 5 evidence points and '
        '>= 1 query inside the bounds')
ASSUMPTIONS = ['evidence points are generated well separated with non-negligible noise']
CONFIG = {
    'quick': {'shards': 16, 'cases': 6, 'timeout': 900, 'floor': 40, 'case_timeout': 400},
    'thorough': {'shards': 32, 'cases': 80, 'timeout': 5400, 'floor': 1000},
}
REQUIRED = ['mixed_batches_checked', 'fast_gradient_called_before_predict', 'bolfi_surrogate_order_permuted', 'bolfi_sampling_phases', 'bolfi_second_phase_after_update', 'bolfi_logpdf_points', 'bolfi_fast_predict_checked',
            'bolfi_fast_gradient_checked', 'contract_logpdf', 'contract_predict', 'gps_fitted', 'logpdf_definition_checked', 'logpdf_outside_checked', 'logpdf_on_bound_checked', 'gradient_checked',
            'fastpath_predict_checked', 'fastpath_gradient_checked', 'evidence_order_checked', 'fast_after_update_without_slow_call',
            'shape_scalar_or_1d', 'shape_2d', 'far_tail_gradient_checked', 'default_threshold', 'gradient_integer_typed_checked', 'fastpath_noiseless_checked', 'fastpath_queries_through_a_reused_buffer']


def gen_cases(ctx):
    rng = ctx.rng
    for ci in range(ctx.ncases):
        if ci % (6 if ctx.tier == 'quick' else 3) == 2:
            bs = int(rng.choice([1, 2]))
            yield {'kind': 'bolfi', 'seed': int(rng.integers(0, 10 ** 6)), 'wide': bool(rng.random() < 0.5), 'bs': bs,
                   'init': bs * int(rng.integers(4, 8)), 'more1': bs * int(rng.integers(2, 6)), 'more2': bs * int(rng.integers(1, 4)),
                   'ui': int(rng.choice([1, 3, 10])), 'algorithm': str(rng.choice(['metropolis', 'nuts'])), 'n_samples': int(rng.choice([12, 24])),
                   'acq': str(rng.choice(['lcbsc', 'uniform'])), 'thr_pct': float(rng.uniform(10, 50))}
            continue
        d = int(rng.integers(1, 5))
        yield {'d': d, 'seed': int(rng.integers(0, 2 ** 31 - 1)), 'wide': bool(rng.random() < 0.5), 'n': int(rng.integers(8, 41)),
               'corner': bool(rng.random() < 0.4), 'noise': float(rng.choice([0.05, 0.2, 0.5])),
               'thr_pct': float(rng.uniform(5, 50)) if rng.random() < 0.8 else None,
               'steps': [{'optimize': bool(rng.random() < 0.6), 'toggle_before': bool(rng.random() < 0.5),
                          'slow_call_between': bool(rng.random() < 0.5)} for _s in range(int(rng.integers(2, 5)))]}


def richardson(f, x, h):
    g = np.zeros(len(x))
    for i in range(len(x)):
        e = np.zeros(len(x))
        e[i] = h
        d1 = (f(x + e) - f(x - e)) / (2 * h)
        d2 = (f(x + 2 * e) - f(x - 2 * e)) / (4 * h)
        g[i] = (4 * d1 - d2) / 3
    return g


def _prior_logpdf(case, lo, hi, x):
    x = np.atleast_2d(x)
    tot = np.zeros(len(x))
    for i in range(case['d']):
        if case['wide']:
            tot = tot + ss.norm((lo[i] + hi[i]) / 2, hi[i] - lo[i]).logpdf(x[:, i])
        else:
            with np.errstate(all='ignore'):
                tot = tot + ss.uniform(lo[i], hi[i] - lo[i]).logpdf(x[:, i])
    return tot


def _compare_fast(ctx, gp, x, where):
    """fast path (is_sampling on) vs the GPy object called directly."""
    scale = float(np.ravel(gp._gp.kern.rbf.variance)[0]) + float(np.ravel(gp._gp.kern.bias.variance)[0])
    # the fast path subtracts nearly equal numbers; its rounding error grows with the conditioning of the kernel matrix
    cond = float(np.linalg.cond(gp._gp.posterior.woodbury_inv))
    ell = float(np.ravel(gp._gp.kern.rbf.lengthscale)[0])
    if not np.isfinite(cond) or cond > 1e13 or not (1e-100 < ell < 1e100):
        # hyper-parameters driven to a degenerate value by the optimiser (lengthscale under/overflow): not judged
        ctx.event('fastpath_skipped_ill_conditioned')
        return
    vtol = scale * max(1e-8, 100 * np.finfo(float).eps * cond)
    x2 = np.asarray(x, dtype=float).reshape(1, -1)
    # as a sampler does, the accelerated calls get ONE array object that is moved in place from query to query
    bufs = ctx.__dict__.setdefault('c10_bufs', {})
    buf = bufs.setdefault(x2.shape[1], np.zeros(x2.shape[1]))
    buf[...] = x2[0]
    x = buf
    ctx.event('fastpath_queries_through_a_reused_buffer')
    mu_ref, var_ref = gp._gp.predict(x2)
    gm_ref, gv_ref = gp._gp.predictive_gradients(x2)
    gm_ref = gm_ref[:, :, 0]
    prev = gp.is_sampling
    gp.is_sampling = True
    try:
        # which accelerated call comes first after a change of the surrogate varies
        ctx.c10_calls = getattr(ctx, 'c10_calls', 0) + 1
        if ctx.c10_calls % 2:
            ctx.event('fast_gradient_called_before_predict')
            gm, gv = gp.predictive_gradients(x)
            mu, var = gp.predict(x)
        else:
            mu, var = gp.predict(x)
            gm, gv = gp.predictive_gradients(x)
        mu_nl, var_nl = gp.predict(x, noiseless=True)
        # a second query in the same sampling phase: the caller's array has moved on in place (x += step)
        step = 0.37 * (1.0 + np.abs(x2[0]))
        buf += step
        mu_b, var_b = gp.predict(buf)
        x3 = np.array(buf, dtype=float).reshape(1, -1)
        buf -= step
    finally:
        gp.is_sampling = prev
    mu_b_ref, var_b_ref = gp._gp.predict(x3)
    if not np.allclose(np.ravel(mu_b), np.ravel(mu_b_ref), rtol=1e-7, atol=max(1e-9, 100 * np.finfo(float).eps * cond) * (1 + abs(float(np.ravel(mu_b_ref)[0])))) or \
            not np.allclose(np.ravel(var_b), np.ravel(var_b_ref), rtol=1e-6, atol=vtol):
        raise Violation('fastpath-second-query', '%s: second accelerated prediction of the phase, at %r (query array moved in place): mean %r variance %r, library %r / %r' % (
            where, x3[0], np.ravel(mu_b), np.ravel(var_b), np.ravel(mu_b_ref), np.ravel(var_b_ref)), {'x': x3[0]})
    # the noise-free prediction through the accelerated path must be the library's noise-free prediction
    mu_nl_ref, var_nl_ref = gp._gp.predict_noiseless(x2)
    ctx.event('fastpath_noiseless_checked')
    if not np.allclose(np.ravel(var_nl), np.ravel(var_nl_ref), rtol=1e-6, atol=vtol) or \
            not np.allclose(np.ravel(mu_nl), np.ravel(mu_nl_ref), rtol=1e-7, atol=max(1e-9, 100 * np.finfo(float).eps * cond) * (1 + abs(float(np.ravel(mu_nl_ref)[0])))):
        raise Violation('fastpath-noiseless', '%s: accelerated predict(noiseless=True) gives mean %r variance %r, library predict_noiseless %r / %r' % (
            where, np.ravel(mu_nl), np.ravel(var_nl), np.ravel(mu_nl_ref), np.ravel(var_nl_ref)), {'x': x})
    ctx.event('fastpath_predict_checked')
    if not np.allclose(np.ravel(mu), np.ravel(mu_ref), rtol=1e-7, atol=max(1e-9, 100 * np.finfo(float).eps * cond) * (1 + abs(float(np.ravel(mu_ref)[0])))):
        raise Violation('fastpath-mean', '%s: accelerated mean %r, library %r' % (where, np.ravel(mu), np.ravel(mu_ref)), {'x': x})
    if not np.allclose(np.ravel(var), np.ravel(var_ref), rtol=1e-6, atol=vtol):
        raise Violation('fastpath-variance', '%s: accelerated variance %r, library %r' % (where, np.ravel(var), np.ravel(var_ref)), {'x': x})
    ctx.event('fastpath_gradient_checked')
    gsc = 1 + np.abs(gm_ref).max()
    if not np.allclose(np.ravel(gm), np.ravel(gm_ref), rtol=1e-6, atol=max(1e-8, 100 * np.finfo(float).eps * cond) * gsc):
        raise Violation('fastpath-mean-gradient', '%s: accelerated mean gradient %r, library %r' % (where, np.ravel(gm), np.ravel(gm_ref)), {'x': x})
    if not np.allclose(np.ravel(gv), np.ravel(gv_ref), rtol=1e-5, atol=vtol * (1 + np.abs(gv_ref).max())):
        raise Violation('fastpath-variance-gradient', '%s: accelerated variance gradient %r, library %r' % (where, np.ravel(gv), np.ravel(gv_ref)), {'x': x})


B2 = {'a': (0.0, 2.0), 'b': (-1.0, 1.0)}


def _sim2(a, b, batch_size=1, random_state=None):
    return np.column_stack([a, b]) + 0.1 * random_state.randn(batch_size, 2)


def _bolfi_contracts(ctx, wide):
    """Post-conditions that stay attached to the real methods while BOLFI fits and samples."""
    from vmon.contracts import Spec
    def prior_lp(x, names):
        x = np.atleast_2d(x)
        tot = np.zeros(len(x))
        for i, n in enumerate(names):
            lo_, hi_ = B2[n]
            if wide:
                tot = tot + ss.norm((lo_ + hi_) / 2, hi_ - lo_).logpdf(x[:, i])
            else:
                with np.errstate(all='ignore'):
                    tot = tot + ss.uniform(lo_, hi_ - lo_).logpdf(x[:, i])
        return tot

    def logpdf_post(result, self, x):
        names = list(self.model.parameter_names)          # column i of a query point is the surrogate's i-th parameter
        lo = np.array([B2[n][0] for n in names])
        hi = np.array([B2[n][1] for n in names])
        xx = np.asarray(x, dtype=float).reshape(-1, 2)
        got = np.ravel(result)
        if len(got) != len(xx):
            return 'logpdf returned %d values for %d points' % (len(got), len(xx))
        inside = np.all((xx >= lo) & (xx <= hi), axis=1)
        mu, var = self.model.predict(xx)
        ref = ss.norm.logcdf((float(self.threshold) - np.ravel(mu)) / np.sqrt(np.ravel(var))) + prior_lp(xx, names)
        for g, r, ins in zip(got, ref, inside):
            ctx.event('bolfi_logpdf_points')
            if not ins:
                if not np.isneginf(g):
                    return 'logpdf outside the bounds is %r, not -inf' % g
            elif np.isfinite(r):
                if not np.isclose(g, r, rtol=1e-10, atol=1e-10):
                    return 'logpdf=%r but log Phi((h-mu)/sd)+log prior=%r (is_sampling=%s)' % (g, r, self.model.is_sampling)
            elif np.isfinite(g):
                return 'logpdf=%r where the definition gives %r' % (g, r)
        return True

    def _tols(gp):
        scale = float(np.ravel(gp._gp.kern.rbf.variance)[0]) + float(np.ravel(gp._gp.kern.bias.variance)[0])
        cond = float(np.linalg.cond(gp._gp.posterior.woodbury_inv))
        return scale, cond

    calls = {'n': 0}

    def predict_post(result, self, x, noiseless=False):
        if self._gp is None or not (self.is_sampling and self._kernel_is_default) or noiseless:
            return True
        calls['n'] += 1
        if calls['n'] % 3 and calls['n'] > 30:
            return True          # every third call is compared with the library (the first 30 of a run all are)
        xx = np.asarray(x, dtype=float).reshape(-1, self.input_dim)
        scale, cond = _tols(self)
        if not np.isfinite(cond) or cond > 1e13:
            ctx.event('bolfi_fast_skipped_ill_conditioned')
            return True
        mu_ref, var_ref = self._gp.predict(xx)
        ctx.event('bolfi_fast_predict_checked')
        mu, var = result
        e = max(1e-9, 100 * np.finfo(float).eps * cond)
        if not np.allclose(np.ravel(mu), np.ravel(mu_ref), rtol=1e-7, atol=e * (1 + np.abs(mu_ref).max())):
            return 'accelerated mean %r, library %r' % (np.ravel(mu)[:3], np.ravel(mu_ref)[:3])
        if not np.allclose(np.ravel(var), np.ravel(var_ref), rtol=1e-6, atol=scale * max(1e-8, 100 * np.finfo(float).eps * cond)):
            return 'accelerated variance %r, library %r' % (np.ravel(var)[:3], np.ravel(var_ref)[:3])
        return True

    def grad_post(result, self, x):
        if self._gp is None or not (self.is_sampling and self._kernel_is_default):
            return True
        xx = np.asarray(x, dtype=float).reshape(-1, self.input_dim)
        if len(xx) != 1:
            return True
        scale, cond = _tols(self)
        if not np.isfinite(cond) or cond > 1e13:
            return True
        gm_ref, gv_ref = self._gp.predictive_gradients(xx)
        gm_ref = gm_ref[:, :, 0]
        gm, gv = result
        ctx.event('bolfi_fast_gradient_checked')
        e = max(1e-8, 100 * np.finfo(float).eps * cond)
        if not np.allclose(np.ravel(gm), np.ravel(gm_ref), rtol=1e-6, atol=e * (1 + np.abs(gm_ref).max())):
            return 'accelerated mean gradient %r, library %r' % (np.ravel(gm), np.ravel(gm_ref))
        if not np.allclose(np.ravel(gv), np.ravel(gv_ref), rtol=1e-5, atol=scale * e * (1 + np.abs(gv_ref).max())):
            return 'accelerated variance gradient %r, library %r' % (np.ravel(gv), np.ravel(gv_ref))
        return True

    return [Spec('elfi.methods.posteriors', 'logpdf', logpdf_post, 'C10', key='bolfi-logpdf-contract', owner='BolfiPosterior'),
            Spec('elfi.methods.bo.gpy_regression', 'predict', predict_post, 'C10', key='bolfi-fastpath-contract', owner='GPyRegression'),
            Spec('elfi.methods.bo.gpy_regression', 'predictive_gradients', grad_post, 'C10', key='bolfi-fastpath-gradient-contract', owner='GPyRegression')]


def run_bolfi(ctx, case):
    """BOLFI end to end: fit, sample, add evidence, sample again - with the contracts attached to the real methods."""
    import contextlib
    import io
    import elfi
    import elfi.client
    import elfi.clients.native as nat
    from elfi.methods.bo.acquisition import UniformAcquisition
    from elfi.methods.bo.gpy_regression import GPyRegression
    from elfi.model.extensions import ModelPrior
    from vmon.contracts import attached
    elfi.client.set_client(nat.Client())
    m = elfi.ElfiModel(name='m')
    for n in ('a', 'b'):
        lo_, hi_ = B2[n]
        if case['wide']:
            elfi.Prior('norm', (lo_ + hi_) / 2, hi_ - lo_, model=m, name=n)
        else:
            elfi.Prior('uniform', lo_, hi_ - lo_, model=m, name=n)
    S = elfi.Simulator(_sim2, m['a'], m['b'], observed=np.array([[1.5, 0.5]]), model=m, name='S')
    elfi.Distance('euclidean', S, model=m, name='d')
    kw = dict(batch_size=case['bs'], initial_evidence=case['init'], update_interval=case['ui'], seed=case['seed'])
    order = ['b', 'a'] if case['seed'] % 2 else ['a', 'b']      # a user-supplied surrogate may list the parameters in its own order
    ctx.event('bolfi_surrogate_order_permuted', order == ['b', 'a'])
    gp = GPyRegression(order, bounds=B2)
    kw.update(target_model=gp)
    if case['acq'] == 'uniform':
        # an acquisition rule that never calls predict(): nothing but update() touches the surrogate between two sampling phases
        kw.update(acquisition_method=UniformAcquisition(gp, prior=ModelPrior(m, parameter_names=order), seed=case['seed']))
    bolfi = elfi.BOLFI(m['d'], **kw)
    mk = {'max_depth': 4} if case['algorithm'] == 'nuts' else {}
    try:
        with attached(ctx, *_bolfi_contracts(ctx, case['wide'])), contextlib.redirect_stdout(io.StringIO()):
            n1 = case['init'] + case['more1']
            bolfi.fit(n1, bar=False)
            X1, Y1 = np.array(bolfi.target_model.X), np.array(bolfi.target_model.Y)
            thr = float(np.percentile(Y1, case['thr_pct']))
            s1 = bolfi.sample(case['n_samples'], n_chains=2, threshold=thr, algorithm=case['algorithm'], **mk)
            ctx.event('bolfi_sampling_phases')
            # with a given threshold fit() does not optimise the surrogate mean, so with an acquisition rule that never predicts
            # nothing but update() touches the surrogate between the two sampling phases
            bolfi.fit(n1 + case['more2'], threshold=thr, bar=False)
            X2, Y2 = np.array(bolfi.target_model.X), np.array(bolfi.target_model.Y)
            ctx.event('evidence_order_checked')
            if not (np.array_equal(X2[:len(X1)], X1) and np.array_equal(Y2[:len(Y1)], Y1)) or len(X2) != n1 + case['more2']:
                raise Violation('evidence-order', 'continuing the fit changed or reordered the earlier evidence (%d -> %d points)' % (len(X1), len(X2)))
            s2 = bolfi.sample(case['n_samples'], n_chains=2, threshold=thr, algorithm=case['algorithm'], **mk)
            ctx.event('bolfi_sampling_phases')
            ctx.event('bolfi_second_phase_after_update')
            post = bolfi.extract_posterior(thr)
            for smp in (s1, s2):
                lp = np.ravel(post.logpdf(smp.samples_array)) if smp is s2 else None
                if lp is not None and not np.all(np.isfinite(lp)):
                    raise Violation('sample-outside-posterior-support', 'BOLFI returned samples whose log posterior is not finite')
    except np.linalg.LinAlgError:
        raise Skip('numerically_degenerate')
    except ValueError as e:
        if 'NUTS: Cannot find acceptable stepsize' in str(e):
            raise Skip('nuts_no_acceptable_stepsize')
        raise
    ctx.nontrivial(True)
    ctx.distinct('config', 'bolfi|%s|%s|%s' % (case['algorithm'], case['acq'], case['wide']))


def run_case(ctx, case):
    if case.get('kind') == 'bolfi':
        return run_bolfi(ctx, case)
    import elfi
    from elfi.methods.bo.gpy_regression import GPyRegression
    from elfi.methods.posteriors import BolfiPosterior
    from elfi.model.extensions import ModelPrior
    rs = np.random.RandomState(case['seed'])
    d = case['d']
    names = ['p%d' % i for i in range(d)]
    lo = rs.uniform(-2, 0, d)
    hi = lo + rs.uniform(1, 3, d)
    bounds = {n: (float(lo[i]), float(hi[i])) for i, n in enumerate(names)}
    m = elfi.ElfiModel(name='m')
    for i, n in enumerate(names):
        if case['wide']:
            elfi.Prior('norm', (lo[i] + hi[i]) / 2, (hi[i] - lo[i]), model=m, name=n)
        else:
            elfi.Prior('uniform', lo[i], hi[i] - lo[i], model=m, name=n)
    prior = ModelPrior(m)
    gp = GPyRegression(names, bounds=bounds)
    N = case['n']
    X = rs.uniform(lo, hi, (N, d))
    opt = np.where(rs.rand(d) < 0.5, lo, hi) if case['corner'] else rs.uniform(lo, hi)
    Y = (np.sum((X - opt) ** 2, 1) + case['noise'] * rs.randn(N))[:, None]
    # ---- update history
    cuts = sorted(set([N] + [int(c) for c in rs.randint(5, N, size=len(case['steps']) - 1)]))
    start = 0
    probe = rs.uniform(lo, hi)
    try:
        for si, (cut, step) in enumerate(zip(cuts, case['steps'])):
            if cut <= start:
                continue
            if step['toggle_before'] and gp.n_evidence > 0:
                # sampling phase on the current GP (fills the cache), then back to fitting
                _compare_fast(ctx, gp, probe, 'step %d before update' % si)
                gp.is_sampling = False
                if step['slow_call_between']:
                    gp.predict(probe)
            gp.update(X[start:cut], Y[start:cut], optimize=step['optimize'])
            start = cut
            ctx.event('evidence_order_checked')
            if not (np.array_equal(gp.X, X[:start]) and np.array_equal(gp.Y, Y[:start])) or gp.n_evidence != start:
                raise Violation('evidence-order', 'after update %d the surrogate evidence is not the concatenation of everything passed in, in order' % si,
                                {'n_evidence': gp.n_evidence, 'expected': start})
            if step['toggle_before'] and not step['slow_call_between']:
                ctx.event('fast_after_update_without_slow_call')
            if gp.n_evidence >= 2:
                _compare_fast(ctx, gp, probe, 'step %d after update' % si)
    except np.linalg.LinAlgError:
        raise Skip('numerically_degenerate')
    if start < N:
        try:
            gp.update(X[start:], Y[start:], optimize=True)
        except np.linalg.LinAlgError:
            raise Skip('numerically_degenerate')
        if not (np.array_equal(gp.X, X) and np.array_equal(gp.Y, Y)):
            raise Violation('evidence-order', 'after the last update the surrogate evidence is not the concatenation of everything passed in')
    # hyper-parameters driven to a degenerate value by the optimiser (lengthscale under/overflow, singular kernel matrix):
    # the fitted GP is numerically meaningless; not judged, counted (DESIGN.md C10/C11 guards)
    ell = float(np.ravel(gp._gp.kern.rbf.lengthscale)[0])
    cond = float(np.linalg.cond(gp._gp.posterior.woodbury_inv))
    if not (1e-100 < ell < 1e100) or not np.isfinite(cond) or cond > 1e13:
        raise Skip('numerically_degenerate')
    ctx.event('gps_fitted')
    gp.is_sampling = False
    if case['thr_pct'] is None:
        post = BolfiPosterior(gp, prior=prior, seed=case['seed'] % 1000)
        ctx.event('default_threshold')
    else:
        post = BolfiPosterior(gp, threshold=float(np.percentile(Y, case['thr_pct'])), prior=prior)
    thr = float(post.threshold)
    inside_seen = False
    try:
        for qi in range(16):
            kind = ['in', 'in', 'out', 'edge'][qi % 4]
            x = rs.uniform(lo, hi)
            if kind == 'out':
                j = rs.randint(d)
                x[j] = hi[j] + rs.uniform(1e-9, 1) if rs.rand() < 0.5 else lo[j] - rs.uniform(1e-9, 1)
            if kind == 'edge':
                j = rs.randint(d)
                x[j] = hi[j] if rs.rand() < 0.5 else lo[j]
            for samp in (False, True):
                gp.is_sampling = samp
                # the definition, with the surrogate's own prediction in the mode it is in
                mu, var = gp.predict(x)
                mu, var = float(np.ravel(mu)[0]), float(np.ravel(var)[0])
                pl = float(_prior_logpdf(case, lo, hi, x)[0])
                ref = ss.norm.logcdf((thr - mu) / np.sqrt(var)) + pl if kind != 'out' else -np.inf
                shapes = [('1d', x if d > 1 else x.reshape(1))] + ([('scalar', np.float64(x[0]))] if d == 1 else []) + [('2d', x.reshape(1, d))]
                for sname, xq in shapes:
                    got = post.logpdf(xq)
                    if sname == '2d':
                        ctx.event('shape_2d')
                        if np.shape(got) != (1,):
                            raise Violation('logpdf-shape', '2-D query of one row returned shape %s' % (np.shape(got),))
                    else:
                        ctx.event('shape_scalar_or_1d')
                        if d > 1 and np.shape(got) != ():
                            raise Violation('logpdf-shape', '1-D query in %d-d returned shape %s' % (d, np.shape(got)))
                    g = float(np.ravel(got)[0])
                    if kind == 'out':
                        ctx.event('logpdf_outside_checked')
                        if not np.isneginf(g):
                            raise Violation('logpdf-outside-bounds', 'logpdf outside the bounds is %r, not -inf' % g, {'x': x, 'bounds': bounds})
                        continue
                    ctx.event('logpdf_on_bound_checked' if kind == 'edge' else 'logpdf_definition_checked')
                    if not (np.isfinite(g) or np.isneginf(ref)):
                        raise Violation('logpdf-not-finite', 'logpdf %s the bounds is %r; definition gives %r' % (
                            'on' if kind == 'edge' else 'inside', g, ref), {'x': x})
                    if np.isfinite(ref) and not np.isclose(g, ref, rtol=1e-10, atol=1e-10):
                        raise Violation('logpdf-definition', 'logpdf=%r, log Phi((h-mu)/sd)+log prior=%r (sampling flag %s, %s query)' % (g, ref, samp, sname),
                                        {'x': x, 'mu': mu, 'var': var, 'threshold': thr})
            gp.is_sampling = False
            if kind != 'out':
                _compare_fast(ctx, gp, x, 'query %d' % qi)
            if kind == 'in':
                inside_seen = True
                margin = np.minimum(x - lo, hi - x).min()
                h = 1e-4
                if margin > 100 * h:
                    def f(z):
                        return float(np.ravel(post.logpdf(z if d > 1 else z.reshape(1)))[0])
                    gq = np.ravel(post.gradient_logpdf(x if d > 1 else x.reshape(1)))
                    num = richardson(f, x, h)
                    # the reference is itself a finite difference: where the log-density is so steep or so curved that two step
                    # sizes disagree beyond a tenth of the tolerance below, it cannot judge (counted, not judged)
                    num_half = richardson(f, x, h / 2)
                    if np.all(np.isfinite(num)) and not np.allclose(num, num_half, rtol=1e-4, atol=1e-5 * (1 + np.abs(num).max())):
                        ctx.event('gradient_reference_unstable_skipped')
                        continue
                    mu_x, var_x = [float(np.ravel(v)[0]) for v in gp.predict(x)]
                    z_x = (thr - mu_x) / math.sqrt(var_x) if var_x > 0 else -np.inf
                    if z_x < -200 and float(np.linalg.cond(gp._gp.posterior.woodbury_inv)) > 1e6:
                        # thousands of standard deviations from the threshold on an ill-conditioned GP: the log-density there is
                        # ~ -z^2/2, so the rounding of the predictive variance (eps * cond) is amplified by z^2 in the analytic
                        # gradient and in the finite difference alike - neither can judge the other (far tails of
                        # well-conditioned GPs are judged by the far-tail check below)
                        ctx.event('gradient_far_tail_ill_conditioned_skipped')
                        continue
                    ctx.event('gradient_checked')
                    if np.isfinite(f(x)) and not np.all(np.isfinite(gq)):
                        raise Violation('gradient-not-finite', 'gradient_logpdf is %r where logpdf is finite (%r)' % (gq, f(x)), {'x': x})
                    if np.all(np.isfinite(num)) and not np.allclose(gq, num, rtol=1e-3, atol=1e-4 * (1 + np.abs(num).max())):
                        raise Violation('gradient', 'gradient_logpdf %r, Richardson difference of logpdf %r' % (gq, num),
                                        {'x': x, 'richardson_half_step': num_half, 'prediction': [np.ravel(v).tolist() for v in gp.predict(x)],
                                         'cond_woodbury_inv': float(np.linalg.cond(gp._gp.posterior.woodbury_inv))})
                    # the same at an integer-TYPED query (np.array([0, 1])): the nearest lattice point when it is interior too
                    xi = np.round(x)
                    if np.minimum(xi - lo, hi - xi).min() > 100 * h:
                        gqi = np.ravel(post.gradient_logpdf(xi.astype(np.int64) if d > 1 else xi.astype(np.int64).reshape(1)))
                        numi = richardson(f, xi, h)
                        ctx.event('gradient_integer_typed_checked')
                        if np.all(np.isfinite(numi)) and not np.allclose(gqi, numi, rtol=1e-3, atol=1e-4 * (1 + np.abs(numi).max())):
                            raise Violation('gradient', 'gradient_logpdf at the integer-typed point %r is %r, Richardson difference of logpdf %r' % (
                                xi.astype(np.int64), gqi, numi), {'x': xi})
        # a 2-D query of several rows, some inside and some outside the bounds: row i must be the value of point i alone
        gp.is_sampling = False
        rows = []
        for qi in range(6):
            x = rs.uniform(lo, hi)
            if qi % 3 == 1:
                j = rs.randint(d)
                x[j] = hi[j] + rs.uniform(1e-6, 1)
            if qi % 3 == 2:
                j = rs.randint(d)
                x[j] = lo[j]
            rows.append(x)
        Xq = np.array(rows)
        got = np.asarray(post.logpdf(Xq))
        grd = np.asarray(post.gradient_logpdf(Xq))
        ctx.event('mixed_batches_checked')
        if got.shape != (6,) or grd.shape != (6, d):
            raise Violation('logpdf-shape', 'a (6, %d) query returned logpdf of shape %s and gradient of shape %s' % (d, got.shape, grd.shape))
        for i, x in enumerate(rows):
            one = float(np.ravel(post.logpdf(x.reshape(1, d)))[0])
            g1 = np.ravel(post.gradient_logpdf(x.reshape(1, d)))
            same = (np.isneginf(one) and np.isneginf(got[i])) or np.isclose(got[i], one, rtol=1e-7, atol=1e-7)
            # batched and single-point library calls differ in the last digits; log Phi amplifies that far from the threshold
            # one row evaluated inside a batch and alone goes through differently blocked linear algebra; the rounding of the
            # predictive variance (eps * cond of the kernel matrix) is amplified in the far tail of an ill-conditioned GP
            gr = max(1e-5, 1e4 * np.finfo(float).eps * float(np.linalg.cond(gp._gp.posterior.woodbury_inv)))
            gsame = np.allclose(grd[i], g1, rtol=gr, atol=1e-7 * (1 + np.abs(g1[np.isfinite(g1)]).max(initial=0.0)), equal_nan=True)
            if not (same and gsame):
                raise Violation('logpdf-batch-row', 'row %d of a mixed inside/outside query: logpdf %r (alone: %r), gradient %r (alone: %r)' % (
                    i, float(got[i]), one, grd[i].tolist(), g1.tolist()), {'query': Xq, 'bounds': bounds})
        # far tail: threshold far below the predicted mean (Phi underflows, logcdf does not)
        x = rs.uniform(lo + 0.2 * (hi - lo), hi - 0.2 * (hi - lo))
        mu, var = gp.predict(x)
        far = BolfiPosterior(gp, threshold=float(np.ravel(mu)[0] - 45 * np.sqrt(np.ravel(var)[0])), prior=prior)
        lp = float(np.ravel(far.logpdf(x if d > 1 else x.reshape(1)))[0])
        gq = np.ravel(far.gradient_logpdf(x if d > 1 else x.reshape(1)))
        ctx.event('far_tail_gradient_checked')
        if np.isfinite(lp) and not np.all(np.isfinite(gq)):
            raise Violation('gradient-not-finite', 'gradient_logpdf is %r in the far tail where logpdf is finite (%r)' % (gq, lp), {'x': x})

        def f2(z):
            return float(np.ravel(far.logpdf(z if d > 1 else z.reshape(1)))[0])
        num = richardson(f2, x, 1e-4)
        if np.isfinite(lp) and np.all(np.isfinite(num)) and not np.allclose(gq, num, rtol=1e-3, atol=1e-4 * (1 + np.abs(num).max())):
            raise Violation('gradient', 'far tail: gradient_logpdf %r, Richardson difference %r' % (gq, num), {'x': x})
    except np.linalg.LinAlgError:
        raise Skip('numerically_degenerate')
    ctx.nontrivial(N >= 5 and inside_seen)
    ctx.distinct('config', 'd%d|wide%s|steps%d' % (d, case['wide'], len(case['steps'])))
