"""Environment compatibility layer (DESIGN.md section 3).

The sandbox ships numpy 2.5.x; elfi uses a few things numpy removed.  These adapters only
restore what older numpy did implicitly (aliases to the same objects, a one-element array
converted to the scalar it contains).  They never change a value elfi computes.  They are
applied from the harness so that /repo stays untouched.
"""
import builtins
import importlib
import logging
import warnings

import numpy as np

ASSUMPTIONS = [
    "compat: numpy aliases Inf/NINF/row_stack/linalg.linalg restored before importing elfi",
    "compat: float(size-1 ndarray) converts through .item() inside elfi.methods.{bo.gpy_regression,mcmc,posteriors}",
    "compat: elfi.methods.inference.bsl.ModelPrior.logpdf returns .item() for size-1 results",
    "compat (C19 end-to-end cases only): `float` inside elfi.methods.inference.romc converts size-1 arrays through .item() and still works as a dtype",
]

for _a, _b in [('Inf', np.inf), ('NINF', -np.inf), ('row_stack', np.vstack)]:
    if not hasattr(np, _a):
        setattr(np, _a, _b)
if not hasattr(np.linalg, 'linalg'):
    np.linalg.linalg = np.linalg


def _float(x=0.0):
    if isinstance(x, np.ndarray) and x.ndim > 0 and x.size == 1:
        return builtins.float(x.reshape(()).item())
    return builtins.float(x)


_installed = False


def install(quiet=True):
    """Import elfi (from the working tree) and install the adapters. Idempotent."""
    global _installed
    if quiet:
        warnings.simplefilter('ignore')
        logging.disable(logging.CRITICAL)
    import elfi  # noqa: F401
    if _installed:
        return elfi
    for mod in ['elfi.methods.bo.gpy_regression', 'elfi.methods.posteriors', 'elfi.methods.mcmc']:
        m = importlib.import_module(mod)
        m.float = _float
    import elfi.methods.inference.bsl as bsl
    from elfi.model.extensions import ModelPrior

    class BslPrior(ModelPrior):
        def logpdf(self, x):
            v = super().logpdf(x)
            if isinstance(v, np.ndarray) and v.ndim > 0 and v.size == 1:
                return v.item()
            return v

    bsl.ModelPrior = BslPrior
    _installed = True
    return elfi


class _FloatShim:
    """Stand-in for the builtin `float` inside elfi.methods.inference.romc: converts size-1 arrays through .item()
    (numpy <= 2.4 semantics) and is still accepted by numpy as `dtype=float` / in isinstance checks."""
    dtype = np.dtype(builtins.float)

    def __call__(self, x=0.0):
        return _float(x)

    def __instancecheck__(self, obj):
        return isinstance(obj, builtins.float)


def install_romc_float():
    """Only needed for ROMC end-to-end runs (C19): romc.py also uses `float` as a dtype, so it gets a callable shim."""
    import elfi.methods.inference.romc as R
    if not isinstance(getattr(R, 'float', None), _FloatShim):
        R.float = _FloatShim()


class SqueezedPrior:
    """Adapter for a directly constructed RomcPosterior: float(prior.pdf(x[None]))."""

    def __init__(self, prior):
        self._p = prior
        self.dim = prior.dim

    def pdf(self, x):
        return np.squeeze(self._p.pdf(x))

    def logpdf(self, x):
        return np.squeeze(self._p.logpdf(x))

    def rvs(self, *a, **k):
        return self._p.rvs(*a, **k)
