import shim, numpy as np, elfi, scipy.stats as ss, warnings, logging
from elfi.methods.bo.gpy_regression import GPyRegression
from elfi.methods.bo.acquisition import LCBSC, MaxVar, RandMaxVar, ExpIntVar, UniformAcquisition
from elfi.model.extensions import ModelPrior
warnings.simplefilter('ignore')
def mk(prior_kind):
    m = elfi.ElfiModel(name='m')
    if prior_kind=='unif':
        elfi.Prior('uniform', 0, 2, model=m, name='a'); elfi.Prior('uniform', -1, 2, model=m, name='b')
    else:
        elfi.Prior('norm', 1, 2, model=m, name='a'); elfi.Prior('norm', 0, 2, model=m, name='b')
    return m
bounds = {'a': (0,2), 'b': (-1,1)}
rs = np.random.RandomState(0)
for pk in ('unif','norm'):
    m = mk(pk)
    gp = GPyRegression(['a','b'], bounds=bounds)
    X = np.column_stack([rs.uniform(0,2,15), rs.uniform(-1,1,15)])
    Y = ((X[:,0]-1.7)**2 + (X[:,1]-0.9)**2)[:,None] + 0.05*rs.randn(15,1)
    gp.update(X, Y, optimize=True)
    prior = ModelPrior(m)
    for cls,kw in [(LCBSC, dict(noise_var=0.5)), (MaxVar,{}), (RandMaxVar, dict(sampler='metropolis', n_samples=60)), (RandMaxVar, dict(sampler='nuts', n_samples=30)), (ExpIntVar, {}), (UniformAcquisition, {})]:
        try:
            acq = cls(gp, prior=prior, seed=1, **kw)
            pts = acq.acquire(5, t=0) if cls is not UniformAcquisition else acq.acquire(5)
            inside = np.all((pts[:,0]>=0)&(pts[:,0]<=2)&(pts[:,1]>=-1)&(pts[:,1]<=1))
            print(pk, cls.__name__, kw.get('sampler',''), pts.shape, 'inside' if inside else 'OUTSIDE %s'%pts)
        except BaseException as e:
            print(pk, cls.__name__, 'ERR', type(e).__name__, str(e)[:200])
