import shim, numpy as np, os, sys, subprocess
from elfi.store import NpyArray, NpyStore
mode = sys.argv[1]
fn = 'npy/a_%s.npy' % mode
if len(sys.argv) > 2:
    # child
    s = NpyStore(fn[:-4], 3)
    s[0] = np.arange(6.).reshape(3,2)
    s[1] = np.arange(6.,12).reshape(3,2)
    s.flush()
    if mode == 'trunc':
        del s[1]
        os._exit(0)
    if mode == 'app_over':
        s[2] = np.arange(12.,18).reshape(3,2)
        s[0] = -np.ones((3,2))
        os._exit(0)
    if mode == 'app':
        s[2] = np.arange(12.,18).reshape(3,2)
        os._exit(0)
else:
    subprocess.run([sys.executable, 'exp3.py', mode, 'child'])
    print(mode, 'size', os.path.getsize(fn))
    try:
        print(np.load(fn))
    except Exception as e:
        print('LOAD FAILED', type(e), e)
