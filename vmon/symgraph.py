"""Symbolic recording operations, random DAG specs and the dataflow reference interpreter
(DESIGN.md section 4) - shared by C03 and C14.

A spec is plain data: a list of node dicts
    {'name', 'kind': const|op|prior|sim|summary|disc, 'pos': [parent names], 'kw': {param: parent},
     'obs': bool, 'meta': bool, 'tol': bool, 'opid': str}
Operations return terms ('T', opid, args, sorted kwargs); distributions return
('R', opid, params, size, 'RS').  A model output is therefore a complete record of exactly
what every operation was called with.
"""
import collections

import numpy as np

CALLS = collections.Counter()      # opid -> number of invocations (simulated + twin) in this process
RS_SEEN = []                       # generator objects handed to stochastic operations
DRAWS = {'on': False}              # C14: stochastic terms carry an actual draw from the generator they were handed


def _rs_term(v):
    if not isinstance(v, np.random.RandomState):
        return ('BAD-RS', repr(type(v)))
    if DRAWS['on']:
        return ('RS', int(v.randint(1 << 30)))
    return 'RS'


def strip_draws(t):
    if isinstance(t, tuple):
        if len(t) == 2 and t[0] == 'RS':
            return 'RS'
        return tuple(strip_draws(x) for x in t)
    if isinstance(t, dict):
        return {k: strip_draws(v) for k, v in t.items()}
    return t


def reset():
    CALLS.clear()
    del RS_SEEN[:]


def _norm_kwargs(k):
    out = {}
    for kk, v in k.items():
        if kk == 'random_state':
            RS_SEEN.append(v)
            out[kk] = _rs_term(v)
        elif kk == 'meta':
            out[kk] = ('META', v.get('batch_index'), v.get('master_seed'), v.get('model_name'))
        else:
            out[kk] = v
    return tuple(sorted(out.items(), key=lambda t: t[0]))


class Sym:
    """Recording operation that enforces its declared signature like a Python function
    without defaults would (a missing parent, batch_size or generator is a TypeError)."""

    def __init__(self, opid, npos, kws, stochastic=False, uses_bs=False, tolerant=False):
        self.opid, self.npos, self.kws = opid, npos, list(kws)
        self.st, self.bs, self.tol = stochastic, uses_bs, tolerant

    def __call__(self, *a, **k):
        if not self.tol:
            if len(a) != self.npos:
                raise TypeError('%s: expected %d positional arguments, got %d' % (self.opid, self.npos, len(a)))
            need = set(self.kws) | ({'random_state'} if self.st else set()) | ({'batch_size'} if self.bs else set())
            if set(k) != need:
                raise TypeError('%s: keyword arguments %s, declared %s' % (self.opid, sorted(k), sorted(need)))
        CALLS[self.opid] += 1
        return ('T', self.opid, tuple(a), _norm_kwargs(k))

    def __eq__(self, o):
        return isinstance(o, Sym) and o.opid == self.opid

    def __hash__(self):
        return hash(self.opid)


class Dist:
    def __init__(self, opid, npos):
        self.opid, self.npos = opid, npos
        self.name = opid

    def rvs(self, *params, size=1, random_state=None):
        if len(params) != self.npos or random_state is None:
            raise TypeError('%s: rvs arity / generator' % self.opid)
        CALLS[self.opid] += 1
        RS_SEEN.append(random_state)
        return ('R', self.opid, tuple(params), tuple(size) if isinstance(size, tuple) else size,
                _rs_term(random_state))

    def __eq__(self, o):
        return isinstance(o, Dist) and o.opid == self.opid

    def __hash__(self):
        return hash(self.opid)


OBSERVABLE = ('sim', 'summary')
STOCHASTIC = ('prior', 'sim')


def new_node(rng, name, avail, opid=None, kinds=None, p_obs=None, allow_kw=True, allow_meta=True, tol_rate=0.05):
    """Draw one node description whose parents come from `avail`."""
    kinds = kinds or (['const', 'op', 'prior'] + (['sim', 'summary', 'disc'] * 2 if avail else []))
    kind = str(rng.choice(kinds))
    k = 0 if kind == 'const' else int(rng.integers(1 if kind in ('summary', 'disc') else 0, min(4, len(avail)) + 1)) if avail else 0
    pos = []
    for _ in range(k):
        p = str(rng.choice(avail))
        if p not in pos:
            pos.append(p)
    if kind in ('summary', 'disc') and not pos:
        kind = 'op'
    kw = {}
    if allow_kw and kind in ('op', 'sim', 'summary') and avail:
        for j in range(int(rng.integers(0, 3))):
            if rng.random() < 0.5:
                c = [a for a in avail if a not in pos and a not in kw.values()]
                if c:
                    kw['kw%d' % j] = str(rng.choice(c))
    if p_obs is None:
        p_obs = 0.8 if kind == 'sim' else 0.4
    obs = bool(kind in OBSERVABLE and rng.random() < p_obs)
    meta = bool(allow_meta and kind == 'op' and rng.random() < 0.3)
    tol = bool(kind == 'sim' and rng.random() < tol_rate)
    return {'name': name, 'kind': kind, 'pos': pos, 'kw': kw, 'obs': obs, 'meta': meta, 'tol': tol,
            'opid': opid or ('f_' + name)}


def gen_spec(rng, nmin=3, nmax=12):
    if rng.random() < 0.08:
        return gen_wide_spec(rng)
    n = int(rng.integers(nmin, nmax + 1))
    spec, names = [], []
    # node names are drawn so that alphabetical order differs from creation order
    labels = ['n%02d' % i for i in rng.permutation(n)]
    for i in range(n):
        nd = new_node(rng, labels[i], list(names))
        spec.append(nd)
        names.append(nd['name'])
    return spec


def gen_wide_spec(rng):
    """A graph with a node of 11-14 positional parents (argument order beyond one digit) plus a few ordinary nodes."""
    k = int(rng.integers(11, 15))
    n = k + int(rng.integers(2, 5))
    labels = ['n%02d' % i for i in rng.permutation(n)]
    spec, names = [], []
    for i in range(k):
        nd = new_node(rng, labels[i], list(names[-3:]), kinds=['const', 'op', 'prior', 'const'], allow_kw=False)
        spec.append(nd)
        names.append(nd['name'])
    kind = str(rng.choice(['op', 'sim', 'summary', 'disc']))
    parents = [str(x) for x in rng.permutation(names)[:k]]
    wide = {'name': labels[k], 'kind': kind, 'pos': parents, 'kw': {}, 'obs': bool(kind in OBSERVABLE and rng.random() < 0.7), 'meta': False,
            'tol': False, 'opid': 'f_' + labels[k]}
    spec.append(wide)
    names.append(wide['name'])
    for i in range(k + 1, n):
        nd = new_node(rng, labels[i], list(names[-4:]))
        spec.append(nd)
        names.append(nd['name'])
    return spec


def obs_term(nd):
    return ('O', nd['opid'])


def const_term(nd):
    return ('C', nd['opid'])


def _crc(x):
    import zlib
    return zlib.crc32(str(x).encode())


def create_node(m, nd, defer_kw=False):
    """Create the elfi node of a node description in model m (parents must exist; with defer_kw only the positional ones -
    the caller adds the named edges afterwards)."""
    import elfi
    nm = nd['name']
    P = [m[p] for p in nd['pos']]
    kind = nd['kind']
    kws = list(nd['kw'])
    if kind == 'const':
        r = elfi.Constant(const_term(nd), model=m, name=nm)
    elif kind == 'op':
        r = elfi.Operation(Sym(nd['opid'], len(P), kws + (['meta'] if nd['meta'] else [])), *P, model=m, name=nm)
    elif kind == 'prior':
        r = elfi.Prior(Dist(nd['opid'], len(P)), *P, model=m, name=nm)
    elif kind == 'sim':
        r = elfi.Simulator(Sym(nd['opid'], len(P), kws, True, True, nd['tol']), *P, model=m, name=nm,
                           observed=obs_term(nd) if nd['obs'] else None)
    elif kind == 'summary':
        r = elfi.Summary(Sym(nd['opid'], len(P), kws), *P, model=m, name=nm, observed=obs_term(nd) if nd['obs'] else None)
    else:
        r = elfi.Discrepancy(Sym(nd['opid'], len(P), ['observed']), *P, model=m, name=nm)
    if not defer_kw:
        for k, p in nd['kw'].items():
            m.add_edge(p, nm, k)
    if nd['meta']:
        r.uses_meta = True
    elif kind != 'const' and _crc(nd['opid']) % 5 == 0:
        # the flag explicitly switched off (directly, or after having been on): such a node declares no metadata and gets none
        if _crc(nd['opid']) % 2:
            r.uses_meta = True
        r.uses_meta = False
    return r


def build(spec, name='g', order=None, late_kw_seed=None):
    """late_kw_seed: nodes are created in a random order that respects only the POSITIONAL edges, and every named edge is
    added afterwards with model.add_edge - the way a user wires a named input from a node created later. The graph is the same;
    the model's node insertion order is then not a topological order of it."""
    import elfi
    m = elfi.ElfiModel(name=name)
    by = {nd['name']: nd for nd in spec}
    if late_kw_seed is not None:
        import numpy as np
        rs = np.random.RandomState(late_kw_seed)
        left, done, seq = [nd['name'] for nd in spec], set(), []
        while left:
            ready = [n for n in left if all(p in done for p in by[n]['pos'])]
            n = ready[int(rs.randint(len(ready)))] if rs.rand() < 0.5 else ready[-1]
            seq.append(n)
            done.add(n)
            left.remove(n)
        for n in seq:
            create_node(m, by[n], defer_kw=True)
        for n in seq:
            for k, p in by[n]['kw'].items():
                m.add_edge(p, n, k)
        return m
    seq = spec if order is None else [by[n] for n in order]
    for nd in seq:
        create_node(m, nd)
    return m


def twin_name(n):
    from elfi.utils import observed_name
    return observed_name(n)


class Reject(Exception):
    """The reference interpreter refuses: observed data would depend on a stochastic node."""


def interp(spec, outputs, bs, given, bidx=0, seed=None, model_name='g', cut_given=False):
    """Dataflow meaning of the request by the statement of C03. Pure function of the spec.

    outputs may contain 'name' or ('obs', name) for the observed twin.
    Returns (values, ran) where ran lists the opids of operations that must run (with repetition)."""
    S = {nd['name']: nd for nd in spec}
    memo, omemo, ran = {}, {}, []

    def val(n):
        if n in given:
            return given[n]
        if n in memo:
            return memo[n]
        nd = S[n]
        if nd['kind'] == 'const':
            v = const_term(nd)
        else:
            a = tuple(val(p) for p in nd['pos'])
            k = {kk: val(p) for kk, p in nd['kw'].items()}
            if nd['kind'] == 'prior':
                v = ('R', nd['opid'], a, (bs,), 'RS')
            else:
                if nd['kind'] == 'sim':
                    k['batch_size'] = bs
                    k['random_state'] = 'RS'
                if nd['meta']:
                    k['meta'] = ('META', bidx, seed, model_name)
                if nd['kind'] == 'disc':
                    k['observed'] = tuple(parent_obs(p) for p in nd['pos'])
                v = ('T', nd['opid'], a, tuple(sorted(k.items(), key=lambda t: t[0])))
            ran.append(nd['opid'])
        memo[n] = v
        return v

    def parent_obs(p):
        return oval(p) if S[p]['kind'] in OBSERVABLE else plain_det(p)

    def plain_det(p):
        chk(p)
        return val(p)

    def chk(p):
        nd = S[p]
        if cut_given and p in given:
            return
        if nd['kind'] in STOCHASTIC:
            raise Reject(('stochastic ancestor', p, False))
        for q in list(nd['pos']) + list(nd['kw'].values()):
            chk(q)

    def oval(n):
        if n in omemo:
            return omemo[n]
        nd = S[n]
        if nd['obs']:
            v = obs_term(nd)
        elif nd['kind'] == 'sim':
            raise Reject(('sim without obs', n, bool(nd['tol'])))
        else:
            a = tuple(parent_obs(p) for p in nd['pos'])
            k = {kk: parent_obs(p) for kk, p in nd['kw'].items()}
            ran.append(nd['opid'])
            v = ('T', nd['opid'], a, tuple(sorted(k.items(), key=lambda t: t[0])))
        omemo[n] = v
        return v

    out = {}
    for o in outputs:
        if isinstance(o, (tuple, list)):
            out[twin_name(o[1])] = oval(o[1])
        else:
            out[o] = val(o)
    return out, ran


def graph_has_stochastic_observed(spec):
    """Does *some* discrepancy's observed data depend on a stochastic node (whole-graph view)?"""
    S = {nd['name']: nd for nd in spec}

    def raw_stoch(p, seen):
        if p in seen:
            return False
        seen.add(p)
        nd = S[p]
        if nd['kind'] in STOCHASTIC:
            return True
        return any(raw_stoch(q, seen) for q in list(nd['pos']) + list(nd['kw'].values()))

    def twin_stoch(n):
        nd = S[n]
        if nd['obs']:
            return False
        if nd['kind'] == 'sim':
            return True
        for p in list(nd['pos']) + list(nd['kw'].values()):
            if S[p]['kind'] in OBSERVABLE:
                if twin_stoch(p):
                    return True
            elif raw_stoch(p, set()):
                return True
        return False

    for nd in spec:
        if nd['kind'] == 'disc':
            for p in nd['pos']:
                if S[p]['kind'] in OBSERVABLE:
                    if twin_stoch(p):
                        return True
                elif raw_stoch(p, set()):
                    return True
    return False


def to_plain(t):
    """tuples -> lists, for witnesses."""
    if isinstance(t, tuple):
        return [to_plain(x) for x in t]
    if isinstance(t, dict):
        return {str(k): to_plain(v) for k, v in t.items()}
    return t
