import compat, numpy as np, elfi, warnings
warnings.simplefilter('ignore')
import elfi.examples.ma2 as ma2, elfi.client
from elfi.model.elfi_model import ComputationContext
m=ma2.get_model(seed_obs=1)
rej=elfi.Rejection(m['d'],batch_size=10,seed=5)
a=rej.sample(5,n_sim=50,bar=False); b=rej.sample(5,n_sim=50,bar=False)
print('same sampler twice equal:', all(np.array_equal(a.outputs[k],b.outputs[k]) for k in a.outputs))
ctx=ComputationContext(batch_size=10,seed=5); bh=elfi.client.BatchHandler(m,ctx,output_names=['d','t1'])
hist=[]; rej2=elfi.Rejection(m['d'],batch_size=10,seed=5); u=rej2.update
def upd(batch,i): hist.append(np.array(batch['t1'])); return u(batch,i)
rej2.update=upd; rej2.sample(5,n_sim=50,bar=False)
print('sampler batch i == compute(i):', all(np.array_equal(hist[i], bh.compute(i)['t1']) for i in range(5)))
