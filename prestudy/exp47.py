import compat, numpy as np, warnings, sys, time
compat.install(); warnings.simplefilter('ignore')
import logging; logging.disable(logging.CRITICAL)
from elfi.methods import mcmc
rs=np.random.RandomState(int(sys.argv[1])); zs=[]; t0=time.time(); bad=0
def ess1(x):
    x=x-x.mean(); n=len(x); f=np.fft.rfft(x, 2*n); ac=np.fft.irfft(f*np.conj(f))[:n]/np.arange(n,0,-1); ac/=ac[0]
    s=0
    for k in range(1,n):
        if ac[k]<0.05: break
        s+=ac[k]
    return n/(1+2*s)
for it in range(int(sys.argv[2])):
    d=rs.randint(1,4); A=rs.randn(d,d); C=A@A.T+np.eye(d)*0.5; P=np.linalg.inv(C); mu=rs.randn(d)*2
    t=lambda x: -0.5*(x-mu)@P@(x-mu); g=lambda x: -P@(x-mu)
    kind=rs.choice(['met','nuts'])
    if kind=='met': ch=mcmc.metropolis(4000, mu+rs.randn(d)*0.1, t, 2.4/np.sqrt(d)*np.sqrt(np.diag(C)), warmup=500, seed=int(rs.randint(1e6)))
    else: ch=mcmc.nuts(1500, mu+rs.randn(d)*0.1, t, g, n_adapt=500, seed=int(rs.randint(1e6)))[500:]
    for j in range(d):
        e=max(ess1(ch[:,j]),5); z=(ch[:,j].mean()-mu[j])/np.sqrt(C[j,j]/e); zs.append((kind,z,e))
        v=ch[:,j].var(); zv=(v/C[j,j]-1)/np.sqrt(2/max(ess1((ch[:,j]-mu[j])**2),5)); zs.append((kind+'var',zv,e))
zs_=np.array([z for _,z,_ in zs]); print('n',len(zs),'max|z|',np.abs(zs_).max(),'q99',np.quantile(np.abs(zs_),0.99),'mean ess',np.mean([e for _,_,e in zs]),'t',round(time.time()-t0,1))
for k in ('met','nuts','metvar','nutsvar'):
    a=np.array([z for kk,z,_ in zs if kk==k]); print(k,len(a),'max',np.abs(a).max().round(2),'rms',np.sqrt((a**2).mean()).round(2))
