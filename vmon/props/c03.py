"""C03 - Compiled execution equals the dataflow meaning of the user's graph.

Symbolic recording operations + a 60-line reference interpreter driven by the spec only.
"""
import numpy as np

from vmon import symgraph as sg
from vmon.core import Violation

PROPERTY = 'C03'
LEVEL = 'exploration'
TECHNIQUE = ('runtime monitoring: symbolic recording operations (terms + call counters) on random DAGs, decided by a reference '
             'dataflow interpreter driven by the plain-data spec')
LEVEL_TEXT = ('Held on every generated graph/request: the real compiler/loader/executor run random acyclic models whose operations return '
              'symbolic terms recording exactly what they were called with; outputs must equal an independent interpreter of the statement, '
              'per-operation call counters must be exactly-once/never, and rejection of stochastic observed data must agree. Sampled graphs '
              '(3-12 nodes), not exhaustive.')
LEVEL_NOTE = ('trusts: the reference interpreter (vmon/symgraph.py); native client; two recorded sub-cases of rejection are known findings '
              '(known_findings.json); requests cut by a supplied stochastic ancestor accept either reading')
RULE = ('cases = random DAG spec (Constant/Operation/Prior/Simulator/Summary/Discrepancy, fan-in<=4 and in 8% of the graphs one node with 11-14 positional parents, 0-2 named edges, shared parents, partial '
        'observations, uses_meta, 5% tolerant simulators) x 3 requests (random output subsets incl. all / single / observed twins, with_values '
        'subsets, batch sizes 1-5; entry points ElfiModel.generate, NodeReference.generate, .observed, a reused BatchHandler over several '
        'batch indices with per-batch supplied values); distinct = hash of the case; non-trivial = some request evaluates >= 2 operations or is a '
        'rejection case')
ASSUMPTIONS = ['batch_size 0 is not requested (elfi maps it to 1 by design of ComputationContext)',
               '"rejected" = any exception raised by the request']
CONFIG = {
    'quick': {'shards': 16, 'cases': 1800, 'timeout': 600, 'floor': 9000},
    'thorough': {'shards': 32, 'cases': 40000, 'timeout': 5400, 'floor': 300000},
}
REQUIRED = ['requests', 'terms_equal', 'call_counters_checked', 'rejections_agreed', 'twin_requests', 'with_values_requests',
            'batchhandler_batches', 'meta_nodes_evaluated', 'named_edges_evaluated', 'wide_nodes_evaluated',
            'graphs_with_named_edges_added_after_creation']


def gen_cases(ctx):
    rng = ctx.rng
    for _ in range(ctx.ncases):
        spec = sg.gen_spec(rng)
        names = [nd['name'] for nd in spec]
        observable = [nd['name'] for nd in spec if nd['kind'] in sg.OBSERVABLE]
        reqs = []
        for _r in range(3):
            entry = str(rng.choice(['model', 'model', 'model', 'node', 'observed', 'handler']))
            mode = rng.random()
            if mode < 0.15:
                outs = None
            elif mode < 0.3:
                outs = [str(rng.choice(names))]
            else:
                outs = [str(x) for x in rng.choice(names, size=int(rng.integers(1, len(names) + 1)), replace=False)]
            if outs is not None and observable and rng.random() < 0.25:
                outs = outs + [['obs', str(rng.choice(observable))]]
            if entry == 'observed':
                if not observable:
                    entry = 'model'
                else:
                    outs = [['obs', str(rng.choice(observable))]]
            if entry == 'node':
                outs = [str(rng.choice(names))]
            given = [str(x) for x in rng.choice(names, size=int(rng.integers(0, 3)), replace=False)] if rng.random() < 0.5 else []
            if entry == 'observed':
                given = []
            req = {'entry': entry, 'outputs': outs, 'bs': int(rng.integers(1, 6)), 'given': given, 'seed': int(rng.integers(0, 1000))}
            if entry == 'handler':
                if outs is None:
                    req['outputs'] = outs = list(names)
                req['batches'] = [{'index': int(rng.integers(0, 6)),
                                   'given': [str(x) for x in rng.choice(names, size=int(rng.integers(0, 3)), replace=False)] if rng.random() < 0.6 else []}
                                  for _b in range(int(rng.integers(2, 5)))]
            reqs.append(req)
        yield {'spec': spec, 'requests': reqs, 'order_seed': int(rng.integers(0, 10 ** 6))}


def _outs(req, names):
    o = req['outputs']
    if o is None:
        return list(names)
    return [tuple(x) if isinstance(x, list) else x for x in o]


def _elfi_names(outs):
    return [sg.twin_name(o[1]) if isinstance(o, tuple) else o for o in outs]


def _classify_reject(rej, direct_twin):
    if rej[0] == 'sim without obs' and rej[2]:
        return 'stochastic-twin-evaluated-by-tolerant-operation'
    if direct_twin:
        return 'stochastic-observed-data-evaluated-when-no-discrepancy-uses-it'
    return 'evaluated-not-rejected'


def _compare(ctx, spec, wholegraph, outs, bs, given, bidx, seed, got, err, where, stored_extra=None):
    """Decide one request: got = elfi's output dict or None, err = exception or None."""
    S = {nd['name']: nd for nd in spec}
    names = _elfi_names(outs)
    ctx.event('requests')
    try:
        ref, ran = sg.interp(spec, outs, bs, given, bidx, seed)
        rej = None
    except sg.Reject as r:
        ref, ran, rej = None, None, r.args[0]
    if rej is not None:
        if got is None:
            ctx.event('rejections_agreed')
            return True
        # evaluated although the strict reading rejects: admissible only if a supplied value cuts the dependency
        try:
            ref, ran = sg.interp(spec, outs, bs, given, bidx, seed, cut_given=True)
            ctx.event('rejection_cut_by_supplied_value')
        except sg.Reject:
            # which observed data was it?  K2 only when no discrepancy guards it: the request without its directly
            # requested twins is not rejected by the strict reading
            plain_outs = [o for o in outs if not isinstance(o, tuple)]
            direct = len(plain_outs) < len(outs)
            if direct and plain_outs:
                try:
                    sg.interp(spec, plain_outs, bs, given, bidx, seed, cut_given=True)
                except sg.Reject:
                    direct = False
            key = _classify_reject(rej, direct)
            raise Violation(key, '%s: observed data depends on a stochastic node (%s) but the request was evaluated, not rejected' % (where, rej,),
                            {'outputs': names, 'given': sorted(given), 'reject': rej, 'got': sg.to_plain({k: got[k] for k in list(got)[:3]})})
    if got is None:
        if wholegraph:
            ctx.event('admissible_whole_graph_rejections')
            return True
        raise Violation('unexpected-error', '%s: request raised %s: %s' % (where, type(err).__name__, str(err)[:300]),
                        {'outputs': names, 'given': sorted(given)})
    extras = set(got) - set(ref)
    if extras and extras <= set(stored_extra or ()):
        # a pool adds stored-but-missing nodes to the outputs so that they can be stored (C05); check them too
        outs = list(outs) + sorted(extras)
        try:
            ref, ran = sg.interp(spec, outs, bs, given, bidx, seed, cut_given=(rej is not None))
        except sg.Reject as r:
            # the pool-added output needs observed data that depends on a stochastic node, and elfi evaluated it
            raise Violation(_classify_reject(r.args[0], False), '%s: a pool-added output (%s) needs observed data that depends on a stochastic node (%s) '
                            'but was evaluated, not rejected' % (where, sorted(extras), r.args[0]), {'outputs': names, 'extras': sorted(extras)})
        ctx.event('pool_added_outputs', len(extras))
    if set(got) != set(ref):
        raise Violation('output-set', '%s: returned outputs %s, requested %s' % (where, sorted(got), sorted(ref)))
    for k in ref:
        if got[k] != ref[k]:
            raise Violation('term-mismatch', '%s: output %s differs from the dataflow meaning' % (where, k),
                            {'node': k, 'got': sg.to_plain(got[k]), 'expected': sg.to_plain(ref[k]), 'given': sorted(given)})
    ctx.event('terms_equal', len(ref))
    exp = {}
    for opid in ran:
        exp[opid] = exp.get(opid, 0) + 1
    calls = {k: v for k, v in sg.CALLS.items() if v}
    if calls != exp:
        raise Violation('call-count', '%s: operation invocations differ from exactly-once-if-needed' % where,
                        {'observed_calls': calls, 'expected_calls': exp, 'outputs': names, 'given': sorted(given)})
    ctx.event('call_counters_checked', len(exp))
    if len({id(r) for r in sg.RS_SEEN}) > 1:
        raise Violation('several-generators', '%s: stochastic nodes of one batch were handed %d different generator objects' % (
            where, len({id(r) for r in sg.RS_SEEN})))
    ctx.event('meta_nodes_evaluated', sum(1 for nd in spec if nd['meta'] and nd['opid'] in exp))
    ctx.event('named_edges_evaluated', sum(len(nd['kw']) for nd in spec if nd['opid'] in exp))
    ctx.event('wide_nodes_evaluated', sum(1 for nd in spec if len(nd['pos']) >= 11 and nd['opid'] in exp))
    return len(ran) >= 2


def _depends_on_disc(S, n, seen=None):
    seen = seen or set()
    if n in seen:
        return False
    seen.add(n)
    nd = S[n]
    if nd['kind'] == 'disc':
        return True
    return any(_depends_on_disc(S, q, seen) for q in list(nd['pos']) + list(nd['kw'].values()))


def fp_int(case):
    # stable integer derived from the case content (same case => same build variant on replay)
    import zlib
    return zlib.crc32(repr([(nd['name'], nd['opid']) for nd in case['spec']]).encode()) + len(case['requests'])


def run_case(ctx, case):
    import elfi
    import elfi.client
    from elfi.model.elfi_model import ComputationContext
    from elfi.store import OutputPool
    spec = case['spec']
    names = [nd['name'] for nd in spec]
    late = None
    if any(nd['kw'] for nd in spec) and fp_int(case) % 3 == 0:
        late = fp_int(case) % 100003
        ctx.event('graphs_with_named_edges_added_after_creation')
    try:
        m = sg.build(spec, late_kw_seed=late)
    except Exception as e:  # building a valid spec must work
        raise Violation('build-failed', 'building the model raised %s: %s' % (type(e).__name__, e))
    wholegraph = sg.graph_has_stochastic_observed(spec)
    nontrivial = False
    for ri, req in enumerate(case['requests']):
        outs = _outs(req, names)
        bs, seed = req['bs'], req['seed']
        where = 'request %d (%s)' % (ri, req['entry'])
        if any(isinstance(o, tuple) for o in outs):
            ctx.event('twin_requests')
        if req['entry'] == 'handler':
            stored = []
            try:
                stored = sorted({g for b in req['batches'] for g in b['given']})
                pool = OutputPool(stored)
                for b in req['batches']:
                    if b['given']:
                        pool.add_batch({g: ('G', g, b['index']) for g in b['given']}, b['index'])
                cctx = ComputationContext(batch_size=bs, seed=seed, pool=pool)
                bh = elfi.client.BatchHandler(m, cctx, output_names=_elfi_names(outs))
                herr = None
            except Exception as e:
                bh, herr = None, e
            supplied = {}
            for b in req['batches']:
                supplied.setdefault(b['index'], set()).update(b['given'])
            for b in req['batches']:
                given = {g: ('G', g, b['index']) for g in supplied[b['index']]}
                sg.reset()
                got, err = None, herr
                if bh is not None:
                    try:
                        got = bh.compute(b['index'])
                    except Exception as e:
                        err = e
                ctx.event('batchhandler_batches')
                if given:
                    ctx.event('with_values_requests')
                nontrivial |= bool(_compare(ctx, spec, wholegraph, outs, bs, given, b['index'], seed, got, err, where + ' batch %d' % b['index'],
                                               stored_extra=stored))
            continue
        given = {g: ('G', g, ri) for g in req['given']}
        if given:
            ctx.event('with_values_requests')
        sg.reset()
        got, err = None, None
        try:
            if req['entry'] == 'observed':
                v = m[outs[0][1]].observed
                got = {sg.twin_name(outs[0][1]): v}
                seed = 'global'
                bs = 1      # .observed evaluates with elfi's minimal batch; no observed twin may see batch_size
            elif req['entry'] == 'node':
                # NodeReference.generate uses the global seed: meta nodes would see master_seed='global'
                v = m[outs[0]].generate(bs, with_values=given or None)
                got = {outs[0]: v}
                seed = 'global'
            else:
                got = m.generate(bs, None if req['outputs'] is None else _elfi_names(outs), with_values=given or None, seed=seed)
        except Exception as e:
            err = e
        nontrivial |= bool(_compare(ctx, spec, wholegraph, outs, bs, given, 0, seed, got, err, where))
    ctx.nontrivial(nontrivial or wholegraph)
    ctx.distinct('graph_shape', repr(sorted((nd['kind'], len(nd['pos']), len(nd['kw']), nd['obs']) for nd in spec)))


def classify(v):
    return v['key']
