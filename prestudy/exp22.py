import compat, numpy as np, elfi, warnings, random, traceback
warnings.simplefilter('ignore')
# symbolic ops
class Sym:
    def __init__(self, name, calls): self.name=name; self.calls=calls
    def __call__(self, *a, **k):
        self.calls[self.name]=self.calls.get(self.name,0)+1
        k2 = {kk:('RS' if kk=='random_state' else v) for kk,v in k.items()}
        return ('T', self.name, a, tuple(sorted(k2.items(), key=lambda t:t[0])))
class Dist:
    def __init__(self, name, calls): self.name=name; self.calls=calls
    def rvs(self, *params, size=1, random_state=None):
        self.calls[self.name]=self.calls.get(self.name,0)+1
        return ('R', self.name, params, size, 'RS' if random_state is not None else None)
def gen(rng):
    n = rng.randint(3,9); spec=[]  # each: dict(name, kind, pos parents, kw parents, observed?)
    names=[]
    for i in range(n):
        nm = 'n%d'%i
        avail = list(names)
        kinds = ['const','op','prior'] + (['sim','summary','disc'] if avail else [])
        kind = rng.choice(kinds)
        if kind in('summary','disc') and not avail: kind='op'
        k = 0 if kind=='const' else rng.randint(1 if kind in ('summary','disc') else 0, min(3,len(avail)))
        pos = [rng.choice(avail) for _ in range(k)] if avail else []
        # no duplicate parents (one edge per pair in DiGraph)
        pos = list(dict.fromkeys(pos))
        kw = {}
        if kind in ('op','sim','summary') and avail and rng.random()<0.4:
            c = [a for a in avail if a not in pos]
            if c: kw['kw0']=rng.choice(c)
        obs = (kind in ('sim','summary') and rng.random()<0.5) or kind=='sim' and rng.random()<0.7
        spec.append(dict(name=nm, kind=kind, pos=pos, kw=kw, obs=obs)); names.append(nm)
    return spec
def build(spec, calls):
    m = elfi.ElfiModel(name='g'); refs={}
    for s in spec:
        nm=s['name']; P=[refs[p] for p in s['pos']]
        if s['kind']=='const': r = elfi.Constant(('C',nm), model=m, name=nm)
        elif s['kind']=='op': r = elfi.Operation(Sym(nm,calls), *P, model=m, name=nm)
        elif s['kind']=='prior': r = elfi.Prior(Dist(nm,calls), *P, model=m, name=nm)
        elif s['kind']=='sim': r = elfi.Simulator(Sym(nm,calls), *P, model=m, name=nm, observed=('O',nm) if s['obs'] else None)
        elif s['kind']=='summary': r = elfi.Summary(Sym(nm,calls), *P, model=m, name=nm, observed=('O',nm) if s['obs'] else None)
        elif s['kind']=='disc': r = elfi.Discrepancy(Sym(nm,calls), *P, model=m, name=nm)
        for k,p in s['kw'].items(): m.add_edge(p, nm, k)
        refs[nm]=r
    return m
class Reject(Exception): pass
def interp(spec, outputs, bs, given=None):
    S={s['name']:s for s in spec}; memo={}; omemo={}; ran=set()
    given = given or {}
    def val(n):
        if n in given: return given[n]
        if n in memo: return memo[n]
        s=S[n]
        if s['kind']=='const': v=('C',n)
        else:
            a=tuple(val(p) for p in s['pos']); k={kk:val(p) for kk,p in s['kw'].items()}
            ran.add(n)
            if s['kind']=='prior': v=('R',n,a,(bs,),'RS')
            else:
                if s['kind']=='sim': k['batch_size']=bs; k['random_state']='RS'
                if s['kind']=='disc': k['observed']=tuple(oval(p) if S[p]['kind'] in ('sim','summary') else val(p) for p in s['pos'])
                v=('T',n,a,tuple(sorted(k.items(), key=lambda t:t[0])))
        memo[n]=v; return v
    def oval(n, top=None):
        if n in omemo: return omemo[n]
        s=S[n]
        if s['obs']: v=('O',n)
        elif s['kind']=='sim': raise Reject(n)
        else:
            def pv(p):
                if S[p]['kind'] in ('sim','summary'): return oval(p)
                chk(p); return val(p)
            a=tuple(pv(p) for p in s['pos']); k={kk:pv(p) for kk,p in s['kw'].items()}
            ran.add('_obs_'+n)
            v=('T',n,a,tuple(sorted(k.items(), key=lambda t:t[0])))
        omemo[n]=v; return v
    def chk(p):
        # stochastic ancestor in observed path -> reject
        s=S[p]
        if s['kind'] in ('prior','sim'): raise Reject(p)
        for q in list(s['pos'])+list(s['kw'].values()): chk(q)
    return {o: val(o) for o in outputs}, ran
rng = random.Random(1)
stats={'ok':0,'reject_both':0,'mismatch':0,'elfi_err':0,'ref_reject_only':0}
for it in range(3000):
    spec = gen(rng); calls={}
    outs = rng.sample([s['name'] for s in spec], rng.randint(1,len(spec)))
    bs = rng.randint(1,4)
    try: m = build(spec, calls)
    except Exception as e: print('build err', e); continue
    try: ref, ran = interp(spec, outs, bs); rej=None
    except Reject as r: ref=None; rej=r
    try:
        got = m.generate(bs, outs, seed=rng.randint(0,100)); err=None
    except Exception as e: got=None; err=e
    if ref is None and got is None: stats['reject_both']+=1
    elif ref is None: 
        stats['ref_reject_only']+=1
        if stats['ref_reject_only']<4: print('REF-REJECT-ONLY', spec, outs)
    elif got is None:
        stats['elfi_err']+=1
        if stats['elfi_err']<4: print('ELFI ERR', type(err).__name__, err, spec, outs)
    else:
        if got==ref and all(v==1 for v in calls.values()): stats['ok']+=1
        else:
            stats['mismatch']+=1
            if stats['mismatch']<4: print('MISMATCH', spec, outs, '\n got', got, '\n ref', ref, calls)
print(stats)
