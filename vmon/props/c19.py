"""C19 - ROMC regions: samples lie inside, density is 1/volume, line search, posterior density and weights.

Contracts (vmon.contracts, icontract post-conditions) are attached to the real
NDimBoundingBox.sample / contains / pdf and to romc.line_search, so they also fire on the
internal calls made by RegionConstructor.build and by RomcPosterior; RomcPosterior is
constructed directly (prior adapter compat.SqueezedPrior, DESIGN.md section 3) and its
unnormalised density and sample weights are compared with the definition evaluated by the
harness from its own specification (rotations, centres, limits, objectives, prior marginals).
See DESIGN.md section 5 / C19.
"""
import math

import numpy as np
import scipy.stats as ss

from vmon import contracts
from vmon.core import Skip, Violation

PROPERTY = 'C19'
LEVEL = 'exploration'
TECHNIQUE = ('runtime monitoring: icontract post-conditions on NDimBoundingBox.sample/contains/pdf and romc.line_search '
             '(fire on internal calls of RegionConstructor.build and RomcPosterior too) + reference-model monitor for '
             'RomcPosterior density and sample weights')
LEVEL_TEXT = ('Held on every generated execution: boxes in d = 1-6 with random orthonormal rotations (QR of Gaussian matrices, plane '
              'rotations, signed permutations, identity), centres up to 1e3, limits incl. zero-width and one-sided ones; points inside, '
              'outside (one or several faces, margins from 1e-6 of the width) and drawn; line searches over quadratic, non-monotone, '
              'two-well, L1 and step objectives for thresholds 1e-6..10, steps 0.1..3, 1-12 refinements, repetition limits 1..300, alone '
              'and through RegionConstructor.build; posteriors with 1-5 regions, actual or local-surrogate objectives, scipy-based and '
              'elfi ModelPrior priors, serial and multiprocessing paths. Exploration, not exhaustive: the property quantifies over '
              'continuous inputs.')
LEVEL_NOTE = ('trusts: numpy linear algebra (solve for box coordinates), scipy.stats marginals as the prior reference, compat.SqueezedPrior; '
              'the contracts read the public attributes rotation/center/limits/volume of the box, which the harness checks against what it '
              'passed to the constructor')
RULE = ('cases = {box: dimension x rotation kind x centre scale x limit pattern (regular / zero width / one-sided / tiny) x draws x probe '
        'points | line search: dimension x objective form x threshold x step x refinements x repetition limit x direction, direct or via '
        'RegionConstructor.build | posterior: dimension x 1-5 regions x rotation kind x objective scale x cut-off x prior kind x '
        'surrogate flag x draws per region x serial/parallel}; distinct = hash of the case; non-trivial = the case uses a non-identity '
        'rotation (box orientation / search direction not along an axis) in d >= 2')
ASSUMPTIONS = [
    'round-trip guard: a draw / probe point closer to a face than 1e-9*(1+|centre|_inf+|limits|_inf) is tallied boundary_ambiguous, never judged',
    'objective values within 1e-12 relative of the cut-off are not judged (the density uses <=, the weight <; the statement does not say which)',
    'limits narrower than 1e-3 count as degenerate: the box must widen them (keep the given interval inside, positive width); how much is not prescribed',
    'line search: "up to which" is read inclusively (no probe with offset in [0, result] at or above the threshold) when the start point is below the threshold; repetition limit >= 1',
    'rotations are orthonormal (the statement quantifies over orthonormal rotations); for boxes built by elfi itself the rotation is read from the box',
]
CONFIG = {
    'quick': {'shards': 16, 'cases': 160, 'timeout': 600, 'floor': 512},
    'thorough': {'shards': 32, 'cases': 3200, 'timeout': 5400, 'floor': 20480},
}
REQUIRED = ['post_cutoff_reset_phases', 'e2e_runs_local_surrogates', 'e2e_runs_true_objectives', 'e2e_pdf_points', 'e2e_pdf_points_region_clause_matters', 'e2e_weights_checked',
            'contract_sample', 'contract_contains', 'contract_pdf', 'contract_line_search', 'draws_checked',
            'contains_inside_checked', 'contains_outside_checked', 'pdf_inside_checked', 'pdf_outside_checked',
            'degenerate_limits_widened', 'volume_checked',
            'ls_start_below_checked', 'ls_start_above', 'ls_probes_checked', 'ls_nonmonotone', 'region_builds',
            'post_pdf_points', 'post_pdf_points_surrogate', 'post_pdf_cutoff_in_region_out', 'post_pdf_batched',
            'post_weights_checked', 'post_weights_nonzero', 'post_weights_zero_by_cutoff', 'post_parallel_runs']


# ----------------------------------------------------------------------------------------
# geometry helpers (harness side)

def _tol(center, limits):
    return 1e-9 * (1.0 + float(np.max(np.abs(center))) + float(np.max(np.abs(limits))))


def box_coords(bb, p):
    """Point in the coordinate system of the box, without using the box's own inverse."""
    return np.linalg.solve(np.asarray(bb.rotation, dtype=float), np.asarray(p, dtype=float) - np.asarray(bb.center, dtype=float))


def locate(bb, p):
    z = box_coords(bb, p)
    L = np.asarray(bb.limits, dtype=float)
    t = _tol(bb.center, L)
    if np.all(z >= L[:, 0] + t) and np.all(z <= L[:, 1] - t):
        return 'in', z
    if np.any(z < L[:, 0] - t) or np.any(z > L[:, 1] + t):
        return 'out', z
    return 'edge', z


def make_rotation(rng, d, kind):
    if kind == 'identity':
        return np.eye(d)
    if d == 1:
        return np.array([[float(rng.choice([-1.0, 1.0]))]])
    if kind == 'qr':
        Q, R = np.linalg.qr(rng.normal(size=(d, d)))
        return Q * np.sign(np.diag(R))
    if kind == 'perm':
        P = np.eye(d)[rng.permutation(d)]
        return P * rng.choice([-1.0, 1.0], size=d)
    if kind == 'givens':
        i, j = rng.choice(d, size=2, replace=False)
        a = rng.uniform(0.1, 3.0)
        G = np.eye(d)
        G[i, i] = G[j, j] = math.cos(a)
        G[i, j] = -math.sin(a)
        G[j, i] = math.sin(a)
        return G
    raise AssertionError(kind)


def make_limits(rng, d, pattern, scale):
    lim = np.zeros((d, 2))
    deg = []
    for i in range(d):
        u = rng.random()
        left, right = -rng.exponential(1.0) * scale - 0.01, rng.exponential(1.0) * scale + 0.01
        if pattern == 'degenerate' and u < 0.3:
            left, right = 0.0, 0.0
        elif pattern == 'degenerate' and u < 0.45:
            w = rng.uniform(1e-5, 5e-4)
            s = rng.random()
            left, right = -w * s, w * (1 - s)
        elif pattern in ('degenerate', 'onesided') and u < 0.7:
            if rng.random() < 0.5:
                left = 0.0
            else:
                right = 0.0
        lim[i] = [left, right]
        deg.append(bool(right - left <= 5e-4))
    return lim, deg


# ----------------------------------------------------------------------------------------
# contracts

def make_specs(ctx):
    def contains_post(self, point, result):
        cl, z = locate(self, point)
        if cl == 'edge':
            ctx.event('boundary_ambiguous_contains')
            return True
        if cl == 'in':
            ctx.event('contains_inside_checked')
            if not bool(result):
                return 'point inside the box (box coordinates %s, limits %s) reported as not contained' % (z.tolist(), np.asarray(self.limits).tolist())
        else:
            ctx.event('contains_outside_checked')
            if bool(result):
                return 'point outside the box (box coordinates %s, limits %s) reported as contained' % (z.tolist(), np.asarray(self.limits).tolist())
        return True

    def pdf_post(self, theta, result):
        cl, z = locate(self, theta)
        L = np.asarray(self.limits, dtype=float)
        vol = float(np.prod(L[:, 1] - L[:, 0]))
        if cl == 'edge':
            ctx.event('boundary_ambiguous_pdf')
            return True
        if cl == 'in':
            ctx.event('pdf_inside_checked')
            if not (vol > 0 and np.isfinite(result) and abs(float(result) - 1.0 / vol) <= 1e-9 / vol):
                return 'density inside the box is %r, 1/volume is %r' % (result, 1.0 / vol if vol > 0 else None)
        else:
            ctx.event('pdf_outside_checked')
            if not (float(result) == 0.0):
                return 'density outside the box is %r (box coordinates %s)' % (result, z.tolist())
        return True

    def sample_post(self, n2, seed, result):
        r = np.asarray(result)
        if r.shape != (n2, self.dim):
            return 'sample(%d) returned shape %s in dimension %d' % (n2, r.shape, self.dim)
        for row in r:
            ctx.event('draws_checked')
            if self.contains(row):
                continue
            cl, z = locate(self, row)
            if cl == 'out':
                return 'drawn point is not contained in its region: box coordinates %s, limits %s' % (z.tolist(), np.asarray(self.limits).tolist())
            ctx.event('boundary_ambiguous')
        return True

    def line_search_post(f, th_star, vd, eps, K, eta, rep_lim, result):
        probes = getattr(f, 'probes', None)
        if probes is None:
            return True
        mine = list(probes)
        del probes[:]
        if not (result > 0) or not np.isfinite(result):
            return 'line search returned %r, not a positive offset' % (result,)
        if not mine:
            return True
        x0 = np.asarray(th_star, dtype=float)
        v = np.asarray(vd, dtype=float)
        vv = float(v @ v)
        if not np.allclose(mine[0][0], x0, rtol=0, atol=1e-12 * (1 + np.max(np.abs(x0)))):
            return True      # the first probe is not the start point: nothing stated
        if not (mine[0][1] < eps):
            ctx.event('ls_start_above')
            return True
        tol = 1e-9 * (1.0 + float(np.max(np.abs(x0))) / math.sqrt(vv) + float(result))
        if K >= 1 and tol > eta / 2.0 ** (K - 1) / 4.0:
            ctx.event('ls_resolution_skipped')
            return True
        ctx.event('ls_start_below_checked')
        for x, val in mine:
            o = float((x - x0) @ v) / vv
            ctx.event('ls_probes_checked')
            if o <= result + tol and not (val < eps):
                return ('objective was %r >= threshold %r at probed offset %r, inside the returned offset %r '
                        '(K=%r eta=%r rep_lim=%r)' % (val, eps, o, result, K, eta, rep_lim))
        return True

    S = contracts.Spec
    mod = 'elfi.methods.inference.romc'
    return [S(mod, 'contains', contains_post, 'C19', key='contains', owner='NDimBoundingBox'),
            S(mod, 'pdf', pdf_post, 'C19', key='pdf', owner='NDimBoundingBox'),
            S(mod, 'sample', sample_post, 'C19', key='sample-outside', owner='NDimBoundingBox'),
            S(mod, 'line_search', line_search_post, 'C19', key='line-search')]


# ----------------------------------------------------------------------------------------
# objectives (module level: picklable for the multiprocessing path)

class Objective:
    """Distance-like objective; records every probe (point copy, value)."""

    def __init__(self, kind, x0, A, f0=0.0, w=None, amp=0.0, freq=1.0, shift=None, radius=1.0, record=True):
        self.kind, self.x0, self.A, self.f0 = kind, np.asarray(x0, float), np.asarray(A, float), float(f0)
        self.w, self.amp, self.freq, self.shift, self.radius = w, float(amp), float(freq), shift, float(radius)
        self.record = record
        self.probes = []

    def value(self, x):
        x = np.asarray(x, dtype=float)
        u = x - self.x0
        k = self.kind
        if k == 'quad':
            v = float(u @ self.A @ u)
        elif k == 'dist':
            v = math.sqrt(max(float(u @ self.A @ u), 0.0))
        elif k == 'bumpy':
            t = float(self.w @ u)
            v = float(u @ self.A @ u) + self.amp * (1.0 - math.cos(self.freq * t))
        elif k == 'twowell':
            u2 = u - self.shift
            v = min(float(u @ self.A @ u), float(u2 @ self.A @ u2))
        elif k == 'abs':
            v = float(np.sum(np.abs(self.A @ u)))
        elif k == 'step':
            v = 0.0 if float(np.max(np.abs(u))) < self.radius else 1.0
        else:
            raise AssertionError(k)
        return v + self.f0

    def __call__(self, x):
        v = self.value(x)
        if self.record:
            self.probes.append((np.array(x, dtype=float), v))
        return v


def _spd(rng, d, lo=0.1, hi=10.0):
    Q = make_rotation(rng, d, 'qr') if d > 1 else np.eye(1)
    ev = np.exp(rng.uniform(math.log(lo), math.log(hi), size=d))
    return (Q * ev) @ Q.T


# ----------------------------------------------------------------------------------------
# priors

class ScipyPrior:
    """Independent marginals; pdf of an (n, d) array -> (n,)."""

    def __init__(self, marg):
        self.marg = marg
        self.dim = len(marg)

    def pdf(self, x):
        x = np.asarray(x, dtype=float).reshape(-1, self.dim)
        out = np.ones(len(x))
        for j, (fam, a, b) in enumerate(self.marg):
            out = out * getattr(ss, fam).pdf(x[:, j], a, b)
        return out

    def logpdf(self, x):
        return np.log(self.pdf(x))


def prior_ref(marg, theta):
    v = 1.0
    for j, (fam, a, b) in enumerate(marg):
        v *= float(getattr(ss, fam).pdf(float(theta[j]), a, b))
    return v


def make_prior(kind, marg):
    from vmon.compat import SqueezedPrior
    if kind == 'scipy':
        return SqueezedPrior(ScipyPrior(marg))
    import elfi
    from elfi.model.extensions import ModelPrior
    m = elfi.ElfiModel(name='c19prior')
    for j, (fam, a, b) in enumerate(marg):
        elfi.Prior(fam, a, b, model=m, name='t%d' % j)
    return SqueezedPrior(ModelPrior(m))


# ----------------------------------------------------------------------------------------
# case generators

ROT_KINDS = ['qr', 'qr', 'qr', 'givens', 'perm', 'identity']


def gen_box(rng):
    d = int(rng.integers(1, 7))
    return {'kind': 'box', 'd': d, 'rot': str(rng.choice(ROT_KINDS)), 'cscale': float(rng.choice([0.0, 1.0, 100.0, 1e3])),
            'pattern': str(rng.choice(['regular', 'regular', 'onesided', 'degenerate'])), 'lscale': float(rng.choice([0.05, 1.0, 10.0])),
            'n': int(rng.choice([1, 10, 50, 120])), 'sample_seed': None if rng.random() < 0.6 else int(rng.integers(0, 10 ** 6)),
            'points': int(rng.choice([8, 20])), 'seed': int(rng.integers(0, 2 ** 31 - 1))}


def gen_ls(rng):
    d = int(rng.integers(1, 6))
    return {'kind': 'ls', 'd': d, 'obj': str(rng.choice(['quad', 'quad', 'bumpy', 'bumpy', 'twowell', 'abs', 'step'])),
            'eps': float(rng.choice([1e-6, 0.01, 0.1, 1.0, 10.0])), 'K': int(rng.integers(1, 13)),
            'eta': float(rng.choice([0.1, 0.25, 1.0, 3.0])), 'rep': int(rng.choice([1, 2, 10, 300])),
            'dir': str(rng.choice(['qr', 'qr', 'axis', 'free'])), 'start_above': bool(rng.random() < 0.12),
            'via': str(rng.choice(['direct', 'direct', 'region'])), 'hess': str(rng.choice(['spd', 'singular', 'identity'])),
            'positional': bool(rng.random() < 0.5), 'seed': int(rng.integers(0, 2 ** 31 - 1))}


def gen_post(rng):
    d = int(rng.integers(1, 5))
    parallel = bool(rng.random() < 0.03)
    return {'kind': 'post', 'd': d, 'k': int(rng.integers(1, 6)), 'rot': str(rng.choice(ROT_KINDS)),
            'prior': 'scipy' if parallel else str(rng.choice(['scipy', 'scipy', 'elfi'])), 'surrogate': bool(rng.random() < 0.5),
            'level': float(rng.choice([0.4, 0.8, 1.3, 2.5])), 'n2': int(rng.choice([1, 5, 12, 25])),
            'points': int(rng.choice([10, 25])), 'parallel': parallel,
            'sample_seed': None if rng.random() < 0.4 else int(rng.integers(0, 10 ** 6)),
            'pattern': str(rng.choice(['regular', 'regular', 'regular', 'degenerate'])),
            'seed': int(rng.integers(0, 2 ** 31 - 1))}


KINDS = ['box'] * 9 + ['ls'] * 6 + ['post'] * 5


def gen_e2e(rng):
    return {'kind': 'e2e', 'seed': int(rng.integers(0, 2 ** 31 - 1)), 'n1': int(rng.integers(4, 9)), 'noise': float(rng.choice([0.2, 0.3, 0.5])),
            'eps_region': float(rng.choice([0.1, 0.2])), 'eps_cutoff': float(rng.choice([0.1, 0.5, 1.0])), 'eps_filter': 0.5,
            'fit_models': bool(rng.random() < 0.6), 'obs': float(rng.uniform(-0.5, 0.5)), 'n2': int(rng.integers(5, 21))}


def gen_cases(ctx):
    rng = ctx.rng
    for i in range(ctx.ncases):
        if i % 40 == 7:
            yield gen_e2e(rng)
            continue
        kind = KINDS[int(rng.integers(len(KINDS)))]
        yield {'box': gen_box, 'ls': gen_ls, 'post': gen_post}[kind](rng)


# ----------------------------------------------------------------------------------------
# run

def build_box(ctx, romc, Q, c, lim, deg):
    """Construct the real box and check what it kept against what it was given."""
    bb = romc.NDimBoundingBox(Q.copy(), c.copy(), lim.copy())
    if not (np.array_equal(bb.rotation, Q) and np.array_equal(bb.center, c)):
        raise Violation('box-geometry', 'the box does not keep the rotation / centre it was given')
    L = np.asarray(bb.limits, dtype=float)
    if L.shape != lim.shape:
        raise Violation('box-limits', 'limits shape %s' % (L.shape,))
    for i in range(len(lim)):
        if not deg[i]:
            if not (L[i, 0] == lim[i, 0] and L[i, 1] == lim[i, 1]):
                raise Violation('box-limits', 'regular limits of dimension %d changed: given %s, kept %s' % (i, lim[i].tolist(), L[i].tolist()))
        else:
            ctx.event('degenerate_limits_widened')
            if not (L[i, 0] <= lim[i, 0] and L[i, 1] >= lim[i, 1] and L[i, 1] - L[i, 0] > 0):
                raise Violation('box-limits-degenerate', 'degenerate limits of dimension %d not widened to a positive width around the '
                                'given interval: given %s, kept %s' % (i, lim[i].tolist(), L[i].tolist()))
    vol = float(np.prod(L[:, 1] - L[:, 0]))
    ctx.event('volume_checked')
    if not (bb.volume > 0 and abs(float(bb.volume) - vol) <= 1e-12 * vol):
        raise Violation('box-volume', 'volume %r, product of the side lengths %r' % (bb.volume, vol), {'limits': L})
    return bb


def probe_points(rng, bb, Q, c, n):
    """Points at known positions relative to the faces (box coordinates chosen by the harness)."""
    L = np.asarray(bb.limits, dtype=float)
    w = L[:, 1] - L[:, 0]
    t = _tol(c, L)
    d = len(w)
    pts = []
    for _ in range(n):
        frac = 10.0 ** rng.uniform(-6, math.log10(0.5), size=d)
        marg = np.maximum(frac * w, 20 * t)
        side = rng.random(d) < 0.5
        z = np.where(side, L[:, 0] + marg, L[:, 1] - marg)
        if rng.random() < 0.5:
            z = L[:, 0] + w * rng.uniform(0.05, 0.95, size=d)
        label = 'in'
        if rng.random() < 0.55:
            label = 'out'
            k = 1 if rng.random() < 0.8 else int(rng.integers(1, d + 1))
            for j in rng.choice(d, size=k, replace=False):
                delta = max(w[j] * 10.0 ** rng.uniform(-6, 0.5), 20 * t)
                z[j] = L[j, 1] + delta if rng.random() < 0.5 else L[j, 0] - delta
        pts.append((label, Q @ z + c))
    return pts


def run_box(ctx, case):
    from elfi.methods.inference import romc
    rng = np.random.default_rng(case['seed'])
    d = case['d']
    Q = make_rotation(rng, d, case['rot'])
    c = rng.normal(size=d) * case['cscale']
    lim, deg = make_limits(rng, d, case['pattern'], case['lscale'])
    with contracts.attached(ctx, *make_specs(ctx)):
        bb = build_box(ctx, romc, Q, c, lim, deg)
        draws = bb.sample(case['n'], seed=case['sample_seed'])
        if np.asarray(draws).shape != (case['n'], d):
            raise Violation('sample-shape', 'sample(%d) returned shape %s' % (case['n'], np.asarray(draws).shape))
        for label, p in probe_points(rng, bb, Q, c, case['points']):
            cl, _ = locate(bb, p)
            if cl != label:
                ctx.event('probe_label_lost')
                continue
            bb.contains(p)
            bb.pdf(p)
        # a few of the draws through pdf as well (density at drawn points)
        for row in np.asarray(draws)[:5]:
            bb.pdf(row)
    ctx.distinct('box_class', 'd%d|%s|%s' % (d, case['rot'], case['pattern']))
    ctx.nontrivial(d >= 2 and not np.allclose(Q, np.eye(d)))


def make_objective(rng, case, d, x0, vd):
    kind = case['obj']
    A = _spd(rng, d)
    eps = case['eps']
    f0 = eps * rng.uniform(1.0, 3.0) if case['start_above'] else (0.0 if rng.random() < 0.6 else eps * rng.uniform(0, 0.5))
    unit = vd / np.linalg.norm(vd)
    if kind == 'bumpy':
        w = unit + 0.3 * rng.normal(size=d)
        return Objective('bumpy', x0, A, f0, w=w, amp=eps * rng.uniform(0.3, 3.0), freq=rng.uniform(0.5, 8.0))
    if kind == 'twowell':
        return Objective('twowell', x0, A, f0, shift=unit * rng.uniform(1.0, 12.0) * case['eta'] + 0.05 * rng.normal(size=d))
    if kind == 'abs':
        return Objective('abs', x0, rng.normal(size=(d, d)) + np.eye(d), f0)
    if kind == 'step':
        return Objective('step', x0, A, f0 if case['start_above'] else 0.0, radius=rng.uniform(0.05, 5.0))
    return Objective('quad', x0, A, f0)


def run_ls(ctx, case):
    from elfi.methods.inference import romc
    rng = np.random.default_rng(case['seed'])
    d = case['d']
    x0 = rng.normal(size=d) * float(rng.choice([0.0, 1.0, 10.0]))
    Q = make_rotation(rng, d, 'qr')
    if case['dir'] == 'axis':
        vd = np.eye(d)[int(rng.integers(d))] * float(rng.choice([-1.0, 1.0]))
    elif case['dir'] == 'free':
        vd = rng.normal(size=d) * rng.uniform(0.3, 3.0)
        if np.linalg.norm(vd) < 0.2:
            vd = Q[:, 0].copy()
    else:
        vd = Q[:, int(rng.integers(d))].copy()
    f = make_objective(rng, case, d, x0, vd)
    eps, K, eta, rep = case['eps'], case['K'], case['eta'], case['rep']
    if case['obj'] in ('bumpy', 'twowell'):
        ctx.event('ls_nonmonotone')
    with contracts.attached(ctx, *make_specs(ctx)):
        if case['via'] == 'direct':
            if case['positional']:
                off = romc.line_search(f, x0.copy(), vd, eps, K, eta, rep)
            else:
                off = romc.line_search(f, x0.copy(), vd, eps, K=K, eta=eta, rep_lim=rep)
            if not (off > 0):
                raise Violation('line-search', 'line search returned %r' % (off,))
            ctx.nontrivial(d >= 2 and np.count_nonzero(np.abs(vd) > 1e-12) >= 2)
        else:
            if case['hess'] == 'spd':
                H = _spd(rng, d)
            elif case['hess'] == 'singular':
                H = np.zeros((d, d))
            else:
                H = np.eye(d)
            res = romc.RomcOptimisationResult(x_min=x0.copy(), f_min=f.value(x0), hess_appr=H)
            rc = romc.RegionConstructor(res, f, d, eps, K=K, eta=eta, rep_lim=rep)
            boxes = rc.build()
            ctx.event('region_builds')
            for bb in boxes:
                if not (np.asarray(bb.limits)[:, 0] < 0).all() or not (np.asarray(bb.limits)[:, 1] > 0).all():
                    raise Violation('region-limits', 'built region has a non-positive extent: %s' % np.asarray(bb.limits).tolist())
                f.record = False
                draws = bb.sample(10)
                for row in np.asarray(draws)[:3]:
                    bb.pdf(row)
                ctx.nontrivial(d >= 2 and not np.allclose(bb.rotation, np.eye(d)))
    ctx.distinct('ls_class', '%s|%s|K%d|eta%s|rep%d|%s' % (case['obj'], case['eps'], K > 1, eta, rep, case['via']))


def run_post(ctx, case):
    from elfi.methods.inference import romc
    from elfi.methods.posteriors import RomcPosterior
    rng = np.random.default_rng(case['seed'])
    d, k = case['d'], case['k']
    marg = []
    for j in range(d):
        if rng.random() < 0.5:
            marg.append(('uniform', float(rng.uniform(-4, -1)), float(rng.uniform(3, 8))))
        else:
            marg.append(('norm', float(rng.normal()), float(rng.uniform(0.5, 3.0))))
    prior = make_prior(case['prior'], marg)
    eps = float(rng.uniform(0.2, 2.0))
    cut = [eps]
    geo, objectives = [], []
    with contracts.attached(ctx, *make_specs(ctx)):
        regions = []
        for i in range(k):
            Q = make_rotation(rng, d, case['rot'])
            c = rng.normal(size=d) * 1.5
            lim, deg = make_limits(rng, d, case['pattern'], 0.7)
            bb = build_box(ctx, romc, Q, c, lim, deg)
            regions.append(bb)
            geo.append((Q, c))
            # sub-level set {f <= eps}: ellipsoid around a point near the centre, of size level * box size
            half = float(np.mean(np.asarray(bb.limits)[:, 1] - np.asarray(bb.limits)[:, 0])) / 2.0 + 0.05
            A = _spd(rng, d, 0.5, 2.0) * (eps / (case['level'] * half)) ** 2
            objectives.append(Objective('dist', c + 0.2 * half * rng.normal(size=d), A, record=False))
        post = RomcPosterior(regions, objectives, list(objectives), None, list(objectives) if case['surrogate'] else None,
                             list(range(k)), case['surrogate'], prior, np.full(d, -6.0), np.full(d, 6.0),
                             eps, eps, eps, parallelize=case['parallel'])
        if case['parallel']:
            ctx.event('post_parallel_runs')

        def count_at(theta):
            n, judged = 0, True
            seen_cut_in_reg_out = False
            for i in range(k):
                dist = objectives[i].value(theta)
                if abs(dist - cut[0]) <= 1e-12 * (1 + abs(cut[0])):
                    judged = False
                cl, _ = locate(regions[i], theta)
                if case['surrogate'] and cl == 'edge':
                    judged = False
                inside_cut = dist <= cut[0]
                if case['surrogate']:
                    if inside_cut and cl == 'out':
                        seen_cut_in_reg_out = True
                    n += int(inside_cut and cl == 'in')
                else:
                    n += int(inside_cut)
            return n, judged, seen_cut_in_reg_out

        # ---- unnormalised density
        pts = []
        for _ in range(case['points']):
            u = rng.random()
            i = int(rng.integers(k))
            L = np.asarray(regions[i].limits)
            if u < 0.6:      # around region i, reaching beyond its faces
                z = (L[:, 0] + L[:, 1]) / 2 + (L[:, 1] - L[:, 0]) * rng.uniform(-0.9, 0.9, size=d)
                pts.append(geo[i][0] @ z + geo[i][1])
            elif u < 0.8:
                pts.append(objectives[i].x0 + 0.05 * rng.normal(size=d))
            else:
                pts.append(rng.uniform(-5, 5, size=d))
        pts = np.array(pts)
        for phase in (0, 1):
            if phase == 1:
                # the cut-off of an existing posterior object is changed: every later evaluation - also at points that were
                # evaluated before - and every later draw's weight must follow the NEW cut-off
                cut[0] = eps * float(rng.choice([0.35, 0.6, 1.6, 2.5]))
                post.reset_eps_cutoff(cut[0])
                ctx.event('post_cutoff_reset_phases')
            vals = [post._pdf_unnorm_single_point(p.copy()) for p in pts]
            batched = post.pdf_unnorm_batched(pts.copy())
            ctx.event('post_pdf_batched')
            if np.shape(batched) != (len(pts),):
                raise Violation('post-pdf-batched-shape', 'pdf_unnorm_batched returned shape %s for %d points' % (np.shape(batched), len(pts)))
            for p, v, vb in zip(pts, vals, batched):
                n, judged, cut_in_reg_out = count_at(p)
                if not judged:
                    ctx.event('post_points_not_judged')
                    continue
                pr = prior_ref(marg, p)
                exp = pr * n
                ctx.event('post_pdf_points')
                if case['surrogate']:
                    ctx.event('post_pdf_points_surrogate')
                    if cut_in_reg_out:
                        ctx.event('post_pdf_cutoff_in_region_out')
                if n > 0 and pr > 0:
                    ctx.event('post_pdf_points_positive')
                for name, got in (('_pdf_unnorm_single_point', v), ('pdf_unnorm_batched', vb)):
                    if not (abs(float(got) - exp) <= 1e-9 * abs(exp)):
                        raise Violation('post-pdf-unnorm', '%s = %r, prior %r x %d accepted problems = %r (surrogate_used=%s)' % (
                            name, got, pr, n, exp, case['surrogate']), {'theta': p, 'prior': pr, 'count': n, 'eps_cutoff': cut[0]})

            # ---- sample weights
            n2 = case['n2']
            theta, w, dist = post.sample(n2, seed=case['sample_seed'])
            theta, w = np.asarray(theta), np.asarray(w)
            if theta.shape != (k, n2, d) or w.shape != (k, n2):
                raise Violation('post-sample-shape', 'sample(%d) with %d regions in d=%d returned theta %s, weights %s' % (n2, k, d, theta.shape, w.shape))
            for i in range(k):
                L = np.asarray(regions[i].limits, dtype=float)
                vol = float(np.prod(L[:, 1] - L[:, 0]))
                for j in range(n2):
                    th = theta[i, j]
                    cl, z = locate(regions[i], th)
                    if cl == 'out':
                        raise Violation('sample-outside', 'posterior draw %d of region %d is outside that region: box coordinates %s, limits %s' % (
                            j, i, z.tolist(), L.tolist()))
                    dv = objectives[i].value(th)
                    if abs(dv - cut[0]) <= 1e-12 * (1 + abs(cut[0])):
                        ctx.event('post_points_not_judged')
                        continue
                    pr = prior_ref(marg, th)
                    exp = (1.0 if dv < cut[0] else 0.0) * pr * vol          # prior / region density, region density = 1/volume
                    got = float(w[i, j])
                    if cl == 'edge' and got == 0.0:
                        ctx.event('boundary_ambiguous')
                        continue
                    ctx.event('post_weights_checked')
                    if exp > 0:
                        ctx.event('post_weights_nonzero')
                    elif pr > 0:
                        ctx.event('post_weights_zero_by_cutoff')
                    if not (abs(got - exp) <= 1e-9 * abs(exp)):
                        raise Violation('post-weight', 'weight of draw %d in region %d is %r; indicator %d x prior %r / region density %r = %r' % (
                            j, i, got, int(dv < cut[0]), pr, 1.0 / vol, exp), {'theta': th, 'distance': dv, 'eps_cutoff': cut[0]})
    ctx.distinct('post_class', 'd%d|k%d|%s|%s|s%d' % (d, k, case['rot'], case['prior'], case['surrogate']))
    ctx.nontrivial(d >= 2 and any(not np.allclose(Q, np.eye(d)) for Q, _ in geo))


def _e2e_sim(theta, batch_size=1, random_state=None, noise=0.3):
    rs = random_state or np.random
    return np.asarray(theta).reshape(-1, 1) + noise * rs.randn(batch_size, 1)


def run_e2e(ctx, case):
    """ROMC end to end on a 1-d model (gradient based, optional local surrogate objectives): the posterior the inference object
    hands out must satisfy the same density / weight definition as a directly constructed one, with the objectives and regions it holds."""
    import contextlib
    import functools
    import io
    import elfi
    from vmon import compat
    compat.install_romc_float()
    m = elfi.ElfiModel(name='c19e2e')
    th = elfi.Prior('uniform', -2.5, 5, model=m, name='theta')
    y = elfi.Simulator(functools.partial(_e2e_sim, noise=case['noise']), th, observed=np.array([[case['obs']]]), model=m, name='y')
    d = elfi.Distance('euclidean', y, model=m, name='d')
    with contextlib.redirect_stdout(io.StringIO()):
        romc = elfi.ROMC(d, bounds=[(-2.5, 2.5)])
        romc.solve_problems(n1=case['n1'], seed=case['seed'] % 10000)
        romc.estimate_regions(eps_filter=case['eps_filter'], eps_region=case['eps_region'], eps_cutoff=case['eps_cutoff'],
                              fit_models=case['fit_models'])
        post = romc.posterior
        if post is None or not len(post.regions):
            raise Skip('no accepted optimisation problem')
        local = bool(case['fit_models'])
        ctx.event('e2e_runs_local_surrogates' if local else 'e2e_runs_true_objectives')
        grid = np.linspace(-2.4, 2.4, 49).reshape(-1, 1)
        got = np.ravel(romc.eval_unnorm_posterior(grid))
        prior_pdf = 1.0 / 5.0
        cut = case['eps_cutoff']
        for t, g in zip(grid, got):
            vals = [float(np.ravel(f(t))[0]) for f in post.funcs]
            if any(abs(v - cut) < 1e-9 for v in vals):
                continue
            in_cut = [v <= cut for v in vals]
            in_reg = [bool(r.contains(t)) for r in post.regions]
            want = prior_pdf * sum(1 for a, b in zip(in_cut, in_reg) if a and (b or not local))
            ctx.event('e2e_pdf_points')
            if sum(in_cut) != sum(1 for a, b in zip(in_cut, in_reg) if a and b):
                ctx.event('e2e_pdf_points_region_clause_matters')
            if not np.isclose(g, want, rtol=1e-9, atol=1e-12):
                raise Violation('e2e-post-pdf', 'ROMC (fit_models=%s): unnormalised posterior at theta=%.3f is %r; prior x number of accepted problems within '
                                'the cut-off%s is %r' % (local, float(t[0]), float(g), ' whose region contains the point' if local else '', want),
                                {'theta': t, 'within_cutoff': in_cut, 'region_contains': in_reg})
        romc.sample(n2=case['n2'], seed=case['seed'] % 10000)
        for i, reg in enumerate(post.regions):
            for j in range(case['n2']):
                s_ = romc.samples[i, j]
                v = float(np.ravel(post.funcs[i](s_))[0])
                if abs(v - cut) < 1e-9:
                    continue
                # a region may reach beyond the support of the prior U(-2.5, 2.5): the prior density of such a draw is 0
                pr_s = prior_pdf if -2.5 <= float(np.ravel(s_)[0]) <= 2.5 else 0.0
                w = (v < cut) * pr_s * reg.volume
                ctx.event('e2e_weights_checked')
                if not reg.contains(s_):
                    raise Violation('e2e-sample-outside-region', 'ROMC drew a sample outside its region')
                if not np.isclose(romc.weights[i, j], w, rtol=1e-9, atol=1e-12):
                    raise Violation('e2e-post-weight', 'ROMC sample weight %r; indicator x prior / region density is %r' % (float(romc.weights[i, j]), w))
    ctx.nontrivial(True)


def run_case(ctx, case):
    ctx.event('cases_' + case['kind'])
    np.random.seed(case['seed'] % (2 ** 32))     # sample(seed=None) draws from the global generator: keep replays exact
    {'box': run_box, 'ls': run_ls, 'post': run_post, 'e2e': run_e2e}[case['kind']](ctx, case)
