"""C16 - Result objects report what the sampler produced, and survive saving.

Reference-model monitor by direct construction (DESIGN.md section 5 / C16): the real Sample /
SmcSample / BolfiSample classes are built from arrays derived from the case (every entry is
distinct, one flavour encodes (parameter, chain, position) in the value), then

* structure: `samples` keys / `samples_array` columns in parameter-name order, each column exactly
  the array that was handed in for that name (extra outputs, shuffled dict order);
* statistics: means == sum(w x)/sum(w) (math.fsum reference), the 95% interval ends and
  `sample_quantiles(alpha)` satisfy the weighted-quantile definition on exactly the stored column
  and the stored weights (admissible set on cumulative-weight boundaries); the same definition is
  attached as a contract to the real `weighted_sample_quantile` (fires on the internal calls);
* BolfiSample == chain-by-chain concatenation of chains[c, warmup:, j] (python loop reference);
* Sample.save to .pkl / .json / .csv in a case-chosen order, files read back with the standard
  library only (pickle / json / csv) and compared value-exact with the arrays handed in;
* eff_sample_size / gelman_rubin_statistic versus direct-sum re-implementations of the formulas
  they document, and their invariance under x -> a*x+b (a != 0) and under chain permutations.
"""
import csv
import json
import math
import os
import pickle
import shutil
import tempfile

import numpy as np

from vmon.contracts import Spec, attached
from vmon.core import Violation

PROPERTY = 'C16'
LEVEL = 'exploration'
TECHNIQUE = ('runtime monitoring: reference-model monitor on directly constructed Sample/SmcSample/BolfiSample objects '
             '(structure, weighted means, weighted-quantile contract on the real weighted_sample_quantile, warm-up slicing), '
             'on the files written by Sample.save (pickle/JSON/CSV read back with the standard library) and on '
             'eff_sample_size / gelman_rubin_statistic (formula re-implementation + affine / chain-permutation invariance)')
LEVEL_TEXT = ('Held on every generated object: each case builds the real result classes from arrays with pairwise distinct entries, '
              'so that any row/column/chain/warm-up mix-up changes an exact comparison; statistics and diagnostics are compared with '
              'independent naive recomputations. Exploration over sizes, weights, value ranges, warm-up lengths and save orders, not '
              'exhaustive; the right level because the property quantifies over all sizes and all finite values.')
LEVEL_NOTE = ('trusts: math.fsum, numpy elementwise arithmetic and comparisons, the json/csv/pickle modules of the standard library; '
              'scalar parameters only (one float64 per draw and parameter); statistics are queried before the first save (see ASSUMPTIONS)')
RULE = ('cases = object kind (Sample | SmcSample with 1-4 populations | BolfiSample | raw diagnostics) x 1-5 parameter names '
        '(alphabetical, outputs dict shuffled, extra non-parameter outputs) x 1-500 draws (or 1-6 chains x 4-200 draws, warm-up 0..n-1) x '
        'value flavour (position-encoded | gaussian | 1e-300..1e300 | awkward decimals/denormals/-0.0 | tied | AR(1) / random-walk chains) x '
        'weights (none | random | with zeros | normalised | powers of two) x save order (permutation of pkl/json/csv) x numpy-or-python meta; '
        'distinct = hash of the case; non-trivial = at least 2 parameters and (weights or at least 2 chains)')
ASSUMPTIONS = [
    'parameter names are handed over in alphabetical order (as ElfiModel.parameter_names is), so "parameter-name order" is unambiguous',
    'means tolerance 1e-12 * sum|w x|/sum w; interval ends are accepted iff they are an element q of the stored column with '
    'W(x<=q) >= alpha-1e-12 and W(x<q) <= alpha+1e-12 (whole admissible set on cumulative-weight boundaries)',
    'ESS reference = M*N/(1+2*sum rho_t), rho_t = 1-(W-mean_m acov_m(t))/var+, acov_m(t) = sum_i (x_i-mean_m)(x_{i+t}-mean_m)/(N-t), '
    'summed over t=1.. until the first negative rho_t (the formula eff_sample_size documents, Stan manual / BDA3); cases where some '
    'inspected |rho_t| < 1e-9 are skipped as ambiguous (truncation point not determined in floating point)',
    'split R-hat reference = sqrt(((n-1)/n W + B/n)/W) over the 2M half chains; for an odd chain length dropping the last, the middle '
    'or the first draw are all accepted; rtol 1e-9 for formula and invariance checks',
    'structure and statistics of the object are judged again after it has been saved (a saved sample object is still a sample object)',
]
CONFIG = {
    'quick': {'shards': 16, 'cases': 600, 'timeout': 600, 'floor': 1920},
    'thorough': {'shards': 32, 'cases': 8000, 'timeout': 5400, 'floor': 51200},
}
REQUIRED = ['objects_sample', 'objects_smc', 'objects_bolfi', 'weighted_objects', 'columns_checked', 'means_checked',
            'intervals_checked', 'contract_weighted_sample_quantile', 'bolfi_warmup_checked', 'bolfi_warmup_positive',
            'pickle_roundtrips', 'json_roundtrips', 'csv_roundtrips', 'json_population_roundtrips',
            'diag_affine_extreme_scale', 'ess_formula_checked', 'rhat_formula_checked', 'ess_affine_checked', 'ess_permutation_checked',
            'rhat_affine_checked', 'rhat_permutation_checked', 'rhat_odd_length', 'ess_truncated_before_end']

NAME_POOL = ['a', 'b', 'c', 'mu', 'sigma', 't1', 't2', 't10', 'theta', 'z', 'B', 'Zeta', '_p', 'alpha', 'k0', 'k1', 'beta_2']
EXTRA_POOL = ['d', 'S1', 'S2', 'zz_sum']
VALUE_FLAVOURS = ['encoded', 'gauss', 'wide', 'awkward', 'ties']
CHAIN_FLAVOURS = ['encoded', 'ar1', 'rw', 'gauss', 'wide']
WEIGHT_FLAVOURS = ['none', 'random', 'zeros', 'normalised', 'pow2', 'tiny']
QTOL = 1e-12
RTOL = 1e-9
AMBIG = 1e-9
# Sample.save('x.json') used to replace the in-memory sample columns by python lists (numpy_to_python_type worked on the object's
# own `samples` dict; repaired in /repo, see known_findings.json): the object is judged again after the saves.
JUDGE_OBJECT_AFTER_SAVE = True


# ----------------------------------------------------------------------------------------
# case generation (plain data; arrays are re-derived from the seed in run_case)
def _names(rng):
    p = int(rng.choice([1, 2, 2, 3, 3, 4, 5]))
    return sorted(str(x) for x in rng.choice(NAME_POOL, size=p, replace=False))


def _n_draws(rng):
    r = rng.random()
    if r < 0.15:
        return int(rng.integers(1, 4))
    if r < 0.3:
        return int(rng.choice([40, 80, 120, 200, 400]))      # 0.025 / 0.975 exactly on cumulative boundaries
    if r < 0.85:
        return int(rng.integers(4, 60))
    return int(rng.integers(60, 501))


def gen_cases(ctx):
    rng = ctx.rng
    for _ in range(ctx.ncases):
        kind = str(rng.choice(['sample', 'sample', 'smc', 'bolfi', 'bolfi', 'diag']))
        case = {'kind': kind, 'seed': int(rng.integers(0, 2 ** 31 - 1)), 'names': _names(rng),
                'order': [str(x) for x in rng.permutation(['pkl', 'json', 'csv'])],
                'alpha': float(rng.choice([0.5, 0.1, 0.9, round(float(rng.uniform(0.001, 0.999)), 6)])),
                'numpy_meta': bool(rng.random() < 0.5)}
        if kind in ('sample', 'smc'):
            case['n'] = _n_draws(rng)
            case['values'] = str(rng.choice(VALUE_FLAVOURS))
            wf = str(rng.choice(WEIGHT_FLAVOURS))
            if kind == 'smc' and wf == 'none':
                wf = 'random'
            case['weights'] = wf
            k = int(rng.integers(0, len(EXTRA_POOL) + 1))
            case['extras'] = [str(x) for x in rng.choice(EXTRA_POOL, size=k, replace=False)]
            if kind == 'smc':
                case['npop'] = int(rng.integers(1, 5))
        else:
            case['chains'] = int(rng.choice([1, 2, 2, 3, 4, 6]))
            case['n'] = int(rng.choice([4, 5, 6, 7, 9, 10, 16, 25, 40, 61, 100, 200]))
            if kind == 'bolfi':
                case['values'] = str(rng.choice(CHAIN_FLAVOURS))
                w = rng.random()
                case['warmup'] = 0 if w < 0.15 else (case['n'] - 1 if w < 0.25 else int(rng.integers(1, case['n'])))
            else:
                case['values'] = str(rng.choice(['ar1', 'ar1', 'rw', 'gauss', 'encoded']))
                case['warmup'] = 0
        yield case


# ----------------------------------------------------------------------------------------
# array derivation
AWKWARD = [0.1, 1.0 / 3.0, 2.0 / 3.0, 1e-310, 5e-324, -0.0, 0.0, 9007199254740993.0, 1e22, 1e23, 1.2345678901234567e-5,
           123456.78901234567, 1e300, -1e300, 2.2250738585072014e-308, 0.30000000000000004, 1e-5, 1e16, 4.35, 0.57]


def _column(rg, flavour, n, j):
    if flavour == 'encoded':
        return (j + 1) * 1e6 + np.arange(n) + 0.5
    if flavour == 'gauss':
        return rg.normal(size=n) * 10.0 ** rg.uniform(-3, 3) + rg.normal() * 10.0 ** rg.uniform(-2, 3)
    if flavour == 'wide':
        return rg.choice([-1.0, 1.0], size=n) * 10.0 ** rg.uniform(-300, 300, size=n)
    if flavour == 'awkward':
        base = np.array(AWKWARD)[rg.integers(0, len(AWKWARD), size=n)]
        mix = rg.random(n) < 0.5
        return np.where(mix, base, rg.normal(size=n) * (j + 1))
    if flavour == 'ties':
        return rg.integers(-2, 3, size=n).astype(float) * rg.choice([0.5, 1.0, 0.1])
    raise ValueError(flavour)


def _weights(rg, flavour, n):
    if flavour == 'none':
        return None
    if flavour == 'random':
        return rg.uniform(0.01, 10.0, size=n)
    if flavour == 'zeros':
        w = rg.uniform(0.01, 10.0, size=n)
        w[rg.random(n) < 0.4] = 0.0
        if not (w > 0).any():
            w[int(rg.integers(0, n))] = 1.0
        return w
    if flavour == 'normalised':
        w = rg.uniform(0.01, 1.0, size=n)
        return w / w.sum()
    if flavour == 'tiny':
        # unnormalised importance weights on a very small overall scale (density ratios): same relative weights
        return rg.uniform(0.01, 10.0, size=n) * 10.0 ** rg.uniform(-14, -9)
    if flavour == 'pow2':
        return 2.0 ** rg.integers(-4, 5, size=n)
    raise ValueError(flavour)


def _chains(rg, flavour, M, N, P):
    ch = np.empty((M, N, P))
    for j in range(P):
        for c in range(M):
            if flavour == 'encoded':
                # distinct everywhere, but not an exact straight line (a line makes the lag sums cancel exactly)
                ch[c, :, j] = (j + 1) * 1e6 + c * 1e3 + np.arange(N) + 0.25 * rg.random(N)
            elif flavour == 'ar1':
                rho = rg.uniform(-0.6, 0.97)
                e = rg.normal(size=N)
                x = np.empty(N)
                x[0] = e[0]
                for t in range(1, N):
                    x[t] = rho * x[t - 1] + e[t]
                ch[c, :, j] = x * 10.0 ** rg.uniform(-2, 2) + rg.normal() * rg.choice([0.0, 0.3, 3.0])
            elif flavour == 'rw':
                ch[c, :, j] = np.cumsum(rg.normal(size=N)) + rg.normal() * 2
            elif flavour == 'gauss':
                ch[c, :, j] = rg.normal(size=N) * (j + 1) + rg.normal() * rg.choice([0.0, 1.0])
            elif flavour == 'wide':
                ch[c, :, j] = rg.choice([-1.0, 1.0], size=N) * 10.0 ** rg.uniform(-300, 300, size=N)
            else:
                raise ValueError(flavour)
    return ch


def _meta(rg, numpy_meta):
    n_sim = int(rg.integers(10, 10 ** 6))
    thr = float(rg.uniform(0.01, 5.0))
    nb = int(rg.integers(1, 100))
    if numpy_meta:
        return {'n_sim': np.int64(n_sim), 'threshold': np.float64(thr), 'n_batches': np.int64(nb), 'seed': np.int64(nb + 7)}
    return {'n_sim': n_sim, 'threshold': thr, 'n_batches': nb, 'seed': nb + 7}


# ----------------------------------------------------------------------------------------
# oracles
def quantile_verdict(x, w, alpha, q):
    """True iff q is an admissible weighted alpha-quantile of the sample x with weights w."""
    x = np.asarray(x, dtype=float).ravel()
    if w is None:
        wn = np.full(len(x), 1.0 / len(x))
    else:
        w = np.asarray(w, dtype=float).ravel()
        wn = w / math.fsum(w)
    try:
        q = float(q)
    except Exception:  # noqa
        return 'quantile %r is not a scalar' % (q,)
    if not np.any(x == q):
        return 'quantile %r is not an element of the sample' % q
    le = math.fsum(wn[x <= q])
    lt = math.fsum(wn[x < q])
    if le < alpha - QTOL:
        return 'W(x<=q)=%.17g < alpha=%r for q=%r' % (le, alpha, q)
    if lt > alpha + QTOL:
        return 'W(x<q)=%.17g > alpha=%r for q=%r' % (lt, alpha, q)
    return True


def _q_post(result, x, alpha, weights):
    return quantile_verdict(x, weights, alpha, result)


def mean_ref(x, w):
    x = [float(v) for v in x]
    if w is None:
        return math.fsum(x) / len(x), math.fsum(abs(v) for v in x) / len(x)
    w = [float(v) for v in w]
    sw = math.fsum(w)
    return math.fsum(a * b for a, b in zip(w, x)) / sw, math.fsum(abs(a * b) for a, b in zip(w, x)) / sw


def same(a, b):
    a = np.asarray(a)
    b = np.asarray(b)
    return a.shape == b.shape and a.dtype.kind == 'f' and bool(np.all(a == b))


def ess_ref(ch):
    """Direct-sum transcription of the documented estimator. Returns (ess, min |rho_t| inspected, lags used)."""
    M, N = ch.shape
    mu = [math.fsum(ch[m]) / N for m in range(M)]
    s2 = [math.fsum((ch[m] - mu[m]) ** 2) / (N - 1) for m in range(M)]
    W = math.fsum(s2) / M
    if M == 1:
        B = 0.0
    else:
        g = math.fsum(mu) / M
        B = N * math.fsum((v - g) ** 2 for v in mu) / (M - 1)
    vp = ((N - 1.0) * W + B) / N
    total, amb, used = 0.0, np.inf, 0
    for lag in range(1, N):
        ac = math.fsum(math.fsum((ch[m, :N - lag] - mu[m]) * (ch[m, lag:] - mu[m])) / (N - lag) for m in range(M)) / M
        rho = 1.0 - (W - ac) / vp
        amb = min(amb, abs(rho))
        if rho >= 0:
            total += rho
            used += 1
        else:
            break
    return M * N / (1.0 + 2.0 * total), amb, used


def rhat_ref(halves):
    n = len(halves[0])
    m = len(halves)
    mu = [math.fsum(h) / n for h in halves]
    s2 = [math.fsum((h - u) ** 2) / (n - 1) for h, u in zip(halves, mu)]
    W = math.fsum(s2) / m
    g = math.fsum(mu) / m
    B = n * math.fsum((u - g) ** 2 for u in mu) / (m - 1)
    return math.sqrt((((n - 1.0) / n) * W + B / n) / W)


def rhat_refs(ch):
    M, N = ch.shape
    n = N // 2
    if N % 2 == 0:
        return [rhat_ref([h for c in range(M) for h in (ch[c, :n], ch[c, n:])])]
    return [rhat_ref([h for c in range(M) for h in (ch[c, :n], ch[c, n:2 * n])]),          # last draw dropped
            rhat_ref([h for c in range(M) for h in (ch[c, :n], ch[c, n + 1:])]),           # middle draw dropped
            rhat_ref([h for c in range(M) for h in (ch[c, 1:n + 1], ch[c, n + 1:])])]      # first draw dropped


def close(a, b, rtol=RTOL):
    a, b = float(a), float(b)
    return math.isfinite(a) and math.isfinite(b) and abs(a - b) <= rtol * max(abs(a), abs(b))


# ----------------------------------------------------------------------------------------
# checks on one object
def check_structure(ctx, s, names, cols, what):
    if list(s.parameter_names) != names:
        raise Violation('parameter-names', '%s.parameter_names %r != %r' % (what, list(s.parameter_names), names))
    if list(s.samples.keys()) != names:
        raise Violation('column-order', '%s.samples keys %r are not in parameter-name order %r' % (what, list(s.samples.keys()), names))
    n = len(cols[names[0]])
    for p in names:
        if not same(s.samples[p], cols[p]):
            raise Violation('column-content', '%s.samples[%r] is not the stored column of that parameter' % (what, p),
                            {'got_head': np.asarray(s.samples[p])[:6], 'expected_head': cols[p][:6]})
    arr = s.samples_array
    if arr.shape != (n, len(names)):
        raise Violation('samples-array-shape', '%s.samples_array has shape %r, expected %r' % (what, arr.shape, (n, len(names))))
    for j, p in enumerate(names):
        if not same(arr[:, j], cols[p]):
            raise Violation('samples-array-column', '%s.samples_array[:, %d] is not the stored column of parameter %r' % (what, j, p),
                            {'got_head': arr[:6, j], 'expected_head': cols[p][:6]})
        ctx.event('columns_checked')
    if s.n_samples != n or s.dim != len(names):
        raise Violation('sizes', '%s n_samples=%r dim=%r, expected %d and %d' % (what, s.n_samples, s.dim, n, len(names)))


def check_statistics(ctx, s, names, cols, w, alpha, what):
    spec = Spec('elfi.methods.utils', 'weighted_sample_quantile', post=_q_post, prop='C16', key='contract:weighted-quantile')
    with attached(ctx, spec):
        cis = s.sample_means_and_95CIs
        means = s.sample_means
        marr = s.sample_means_array
        qs = s.sample_quantiles(alpha=alpha)
    for label, d in (('sample_means_and_95CIs', cis), ('sample_means', means), ('sample_quantiles', qs)):
        if list(d.keys()) != names:
            raise Violation('stat-order', '%s.%s keys %r are not in parameter-name order %r' % (what, label, list(d.keys()), names))
    if np.shape(marr) != (len(names),):
        raise Violation('means-array-shape', '%s.sample_means_array has shape %r' % (what, np.shape(marr)))
    for j, p in enumerate(names):
        ref, scale = mean_ref(cols[p], w)
        tol = 1e-12 * scale + 1e-300
        for label, got in (('sample_means', means[p]), ('sample_means_array', marr[j]), ('sample_means_and_95CIs[0]', cis[p][0])):
            if not (abs(float(got) - ref) <= tol):
                raise Violation('mean', '%s.%s of %r is %r, weighted average of the stored samples is %r' % (what, label, p, float(got), ref),
                                {'column_head': cols[p][:8], 'weights_head': None if w is None else w[:8]})
        ctx.event('means_checked')
        for label, a, got in (('2.5%', 0.025, cis[p][1]), ('97.5%', 0.975, cis[p][2]), ('sample_quantiles(%r)' % alpha, alpha, qs[p])):
            v = quantile_verdict(cols[p], w, a, got)
            if v is not True:
                raise Violation('interval', '%s %s end for %r is not a weighted quantile of the stored samples: %s' % (what, label, p, v),
                                {'column_head': cols[p][:8], 'weights_head': None if w is None else w[:8], 'got': got})
        ctx.event('intervals_checked')


def _parse_cols(obj, names, what, fmt):
    if not isinstance(obj, dict):
        raise Violation('%s-samples' % fmt, '%s: no samples mapping in the %s file' % (what, fmt))
    if sorted(obj.keys()) != sorted(names):
        raise Violation('%s-names' % fmt, '%s: parameter names in the %s file %r != %r' % (what, fmt, sorted(obj.keys()), sorted(names)))
    return {p: np.asarray(obj[p], dtype=float) for p in names}


def _cmp_cols(got, names, cols, what, fmt):
    for p in names:
        if not same(got[p], cols[p]):
            g = np.asarray(got[p])
            bad = None
            if g.shape == cols[p].shape:
                idx = np.where(g != cols[p])[0]
                bad = {'row': int(idx[0]), 'read_back': float(g[idx[0]]), 'stored': float(cols[p][idx[0]])} if len(idx) else None
            raise Violation('%s-roundtrip' % fmt, '%s: samples of %r read back from the %s file differ from the stored samples' % (what, p, fmt),
                            {'first_difference': bad, 'shape_read': list(g.shape), 'shape_stored': list(cols[p].shape)})


def check_saving(ctx, s, names, cols, order, what, populations=None):
    tmp = tempfile.mkdtemp(prefix='c16-')
    try:
        for fmt in order:
            path = os.path.join(tmp, 'res.' + fmt)
            s.save(path)
            if fmt == 'pkl':
                with open(path, 'rb') as f:
                    back = pickle.load(f)
                if list(back.samples.keys()) != names:
                    raise Violation('pkl-names', '%s: unpickled samples keys %r != %r' % (what, list(back.samples.keys()), names))
                _cmp_cols({p: np.asarray(back.samples[p], dtype=float) for p in names}, names, cols, what, 'pkl')
                arr = np.asarray(back.samples_array, dtype=float)
                for j, p in enumerate(names):
                    if arr.shape != (len(cols[p]), len(names)) or not same(arr[:, j], cols[p]):
                        raise Violation('pkl-roundtrip', '%s: samples_array column %d of the unpickled object differs from the stored samples of %r' % (what, j, p))
                ctx.event('pickle_roundtrips')
            elif fmt == 'json':
                with open(path) as f:
                    data = json.load(f)
                _cmp_cols(_parse_cols(data.get('samples'), names, what, 'json'), names, cols, what, 'json')
                ctx.event('json_roundtrips')
                if populations is not None:
                    pops = data.get('populations')
                    if not isinstance(pops, dict) or len(pops) != len(populations):
                        raise Violation('json-populations', '%s: json file has %s populations, the object has %d' % (
                            what, None if not isinstance(pops, dict) else len(pops), len(populations)))
                    for i, (label, pd) in enumerate(pops.items()):
                        pw = '%s population %d (%s)' % (what, i, label)
                        _cmp_cols(_parse_cols(pd.get('samples'), names, pw, 'json'), names, populations[i], pw, 'json')
                        ctx.event('json_population_roundtrips')
                if any(isinstance(v, list) for v in s.samples.values()):
                    ctx.event('info_json_save_left_lists_in_memory')
            else:
                with open(path, newline='') as f:
                    rows = list(csv.reader(f))
                if not rows or rows[0] != names:
                    raise Violation('csv-header', '%s: csv header %r != parameter names %r' % (what, rows[0] if rows else None, names))
                body = rows[1:]
                n = len(cols[names[0]])
                if len(body) != n or any(len(r) != len(names) for r in body):
                    raise Violation('csv-shape', '%s: csv file has %d data rows (widths %r), the sample has %d rows of %d parameters' % (
                        what, len(body), sorted(set(len(r) for r in body))[:4], n, len(names)))
                try:
                    got = {p: np.array([float(r[j]) for r in body], dtype=float) for j, p in enumerate(names)}
                except ValueError as e:
                    raise Violation('csv-parse', '%s: a csv cell is not a number: %s' % (what, e))
                _cmp_cols(got, names, cols, what, 'csv')
                ctx.event('csv_roundtrips')
    finally:
        shutil.rmtree(tmp, ignore_errors=True)


def check_diagnostics(ctx, ch, rg, what):
    """ch: (M, N) chains of one parameter, N >= 4, positive within-chain variance."""
    from elfi.methods import mcmc
    M, N = ch.shape
    if not np.all(np.isfinite(ch)) or np.abs(ch).max() > 1e100:
        return
    for c in range(M):
        n = N // 2
        for h in ((ch[c, :n], ch[c, n:]) if N % 2 == 0 else (ch[c, :n], ch[c, n:2 * n], ch[c, n + 1:], ch[c, 1:n + 1])):
            if not np.var(h) > 0:
                ctx.event('diag_degenerate_skipped')
                return
    scale = float(np.std(ch)) or 1.0
    a = float(rg.uniform(0.1, 10.0) * rg.choice([-1.0, 1.0]))
    if rg.random() < 0.3:
        # a change of units by many orders of magnitude (rates per microsecond, distances in nanometres ...)
        a = float(10.0 ** rg.uniform(-7.0, 7.0) * rg.choice([-1.0, 1.0]))
        ctx.event('diag_affine_extreme_scale')
    b = float(rg.uniform(-5.0, 5.0) * scale * abs(a))          # offset of the order of the rescaled spread (no cancellation)
    perm = rg.permutation(M)
    if M > 1 and np.array_equal(perm, np.arange(M)):
        perm = np.roll(perm, 1)

    ref, amb, used = ess_ref(ch)
    got = mcmc.eff_sample_size(ch.copy())
    if amb < AMBIG:
        ctx.event('ess_ambiguous_skipped')
    else:
        if not close(got, ref):
            raise Violation('ess-formula', '%s: eff_sample_size=%r, formula gives %r (M=%d N=%d, %d lags summed)' % (what, float(got), ref, M, N, used),
                            {'chains': ch if ch.size <= 80 else None})
        ctx.event('ess_formula_checked')
        if used < N - 1:
            ctx.event('ess_truncated_before_end')
        g2 = mcmc.eff_sample_size(a * ch + b)
        if not close(got, g2):
            raise Violation('ess-affine', '%s: eff_sample_size changes under x -> %r*x+%r: %r vs %r' % (what, a, b, float(got), float(g2)),
                            {'chains': ch if ch.size <= 80 else None})
        ctx.event('ess_affine_checked')
        if M > 1:
            g3 = mcmc.eff_sample_size(ch[perm])
            if not close(got, g3):
                raise Violation('ess-permutation', '%s: eff_sample_size changes under chain order %r: %r vs %r' % (what, perm.tolist(), float(got), float(g3)),
                                {'chains': ch if ch.size <= 80 else None})
            ctx.event('ess_permutation_checked')
        if M == 1:
            g4 = mcmc.eff_sample_size(ch[0].copy())        # documented shape (N,)
            if not close(got, g4):
                raise Violation('ess-1d', '%s: eff_sample_size of a 1-d chain %r != of the same chain as one row %r' % (what, float(g4), float(got)))

    refs = rhat_refs(ch)
    h = mcmc.gelman_rubin_statistic(ch.copy())
    if not any(close(h, r) for r in refs):
        raise Violation('rhat-formula', '%s: gelman_rubin_statistic=%r, split R-hat formula gives %r (M=%d N=%d)' % (what, float(h), refs, M, N),
                        {'chains': ch if ch.size <= 80 else None})
    ctx.event('rhat_formula_checked')
    if N % 2:
        ctx.event('rhat_odd_length')
    h2 = mcmc.gelman_rubin_statistic(a * ch + b)
    if not close(h, h2):
        raise Violation('rhat-affine', '%s: gelman_rubin_statistic changes under x -> %r*x+%r: %r vs %r' % (what, a, b, float(h), float(h2)),
                        {'chains': ch if ch.size <= 80 else None})
    ctx.event('rhat_affine_checked')
    if M > 1:
        h3 = mcmc.gelman_rubin_statistic(ch[perm])
        if not close(h, h3):
            raise Violation('rhat-permutation', '%s: gelman_rubin_statistic changes under chain order %r: %r vs %r' % (what, perm.tolist(), float(h), float(h3)),
                            {'chains': ch if ch.size <= 80 else None})
        ctx.event('rhat_permutation_checked')


# ----------------------------------------------------------------------------------------
def _build_sample(rg, case, names, n, method='Rejection'):
    from elfi.methods.results import Sample
    cols = {p: _column(rg, case['values'], n, j) for j, p in enumerate(names)}
    w = _weights(rg, case['weights'], n)
    extras = {e: rg.random(n) for e in case['extras']}
    items = list(cols.items()) + list(extras.items())
    outputs = dict(items[i] for i in rg.permutation(len(items)))
    dn = 'd' if 'd' in extras else None
    s = Sample(method, outputs, list(names), discrepancy_name=dn, weights=None if w is None else w.copy(),
               **_meta(rg, case['numpy_meta']))
    return s, {p: v.copy() for p, v in cols.items()}, w, extras


def run_case(ctx, case):
    from elfi.methods.results import BolfiSample, SmcSample
    rg = np.random.default_rng(case['seed'])
    names = list(case['names'])
    kind = case['kind']
    ctx.distinct('class', '%s|p%d|%s|%s' % (kind, len(names), case['values'], case.get('weights', case.get('chains'))))

    if kind in ('sample', 'smc'):
        n = case['n']
        populations = None
        if kind == 'sample':
            s, cols, w, extras = _build_sample(rg, case, names, n)
            ctx.event('objects_sample')
        else:
            pops, pcols = [], []
            for i in range(case['npop']):
                ps, pc, pw, _ = _build_sample(rg, case, names, max(1, n - i), method='Rejection within SMC-ABC')
                check_structure(ctx, ps, names, pc, 'population %d' % i)
                check_statistics(ctx, ps, names, pc, pw, case['alpha'], 'population %d' % i)
                pops.append(ps)
                pcols.append(pc)
            cols = {p: _column(rg, case['values'], n, j) + 0.125 for j, p in enumerate(names)}
            w = _weights(rg, case['weights'], n)
            extras = {e: rg.random(n) for e in case['extras']}
            items = list(cols.items()) + list(extras.items())
            outputs = dict(items[i] for i in rg.permutation(len(items)))
            s = SmcSample('SMC', outputs, list(names), pops, discrepancy_name='d' if 'd' in extras else None,
                          weights=w.copy(), **_meta(rg, case['numpy_meta']))
            cols = {p: v.copy() for p, v in cols.items()}
            populations = pcols
            if s.n_populations != len(pops) or any(a is not b for a, b in zip(s.populations, pops)):
                raise Violation('populations', 'SmcSample.populations is not the list of populations handed in')
            ctx.event('objects_smc')
        if w is not None:
            ctx.event('weighted_objects')
        if 'd' in extras and not same(s.discrepancies, extras['d']):
            raise Violation('discrepancies', 'Sample.discrepancies is not the stored discrepancy output')
        check_structure(ctx, s, names, cols, kind)
        check_statistics(ctx, s, names, cols, w, case['alpha'], kind)
        check_saving(ctx, s, names, cols, case['order'], kind, populations=populations)
        if JUDGE_OBJECT_AFTER_SAVE:
            check_structure(ctx, s, names, cols, kind + ' after save')
            check_statistics(ctx, s, names, cols, w, case['alpha'], kind + ' after save')
        ctx.nontrivial(len(names) >= 2 and w is not None)
        return

    M, N, P = case['chains'], case['n'], len(names)
    chains = _chains(rg, case['values'], M, N, P)
    if kind == 'bolfi':
        wu = case['warmup']
        given = chains.copy()
        s = BolfiSample('BOLFI', given, list(names), warmup=wu, **_meta(rg, case['numpy_meta']))
        ctx.event('objects_bolfi')
        cols = {}
        for j, p in enumerate(names):
            col = []
            for c in range(M):
                for t in range(wu, N):
                    col.append(chains[c, t, j])
            cols[p] = np.array(col, dtype=float)
        check_structure(ctx, s, names, cols, 'BolfiSample(warmup=%d, chains=%d x %d)' % (wu, M, N))
        ctx.event('bolfi_warmup_checked')
        if wu > 0:
            ctx.event('bolfi_warmup_positive')
        if s.n_chains != M or s.warmup != wu or not same(s.chains, chains):
            raise Violation('bolfi-meta', 'BolfiSample n_chains/warmup/chains differ from what was handed in')
        check_statistics(ctx, s, names, cols, None, case['alpha'], 'BolfiSample')
        check_saving(ctx, s, names, cols, case['order'], 'BolfiSample')
        if JUDGE_OBJECT_AFTER_SAVE:
            check_structure(ctx, s, names, cols, 'BolfiSample after save')
            check_statistics(ctx, s, names, cols, None, case['alpha'], 'BolfiSample after save')
        if N - wu >= 4 and case['values'] != 'wide':
            for j, p in enumerate(names):
                check_diagnostics(ctx, np.ascontiguousarray(chains[:, wu:, j]), rg, 'chains of %r after warm-up' % p)
    else:
        for j, p in enumerate(names):
            check_diagnostics(ctx, np.ascontiguousarray(chains[:, :, j]), rg, 'chains of %r' % p)
    ctx.nontrivial(P >= 2 and M >= 2)
