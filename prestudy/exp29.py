import compat, numpy as np, types
compat.install()
import elfi.methods.mcmc as mc
LOG=[]
class RecRS(np.random.RandomState):
    def randn(self,*a):
        v=super().randn(*a); LOG.append(('z',np.array(v).copy())); return v
    def rand(self,*a):
        v=super().rand(*a); LOG.append(('u',v)); return v
class NS:
    def __init__(self, real): self._r=real; self.random=types.SimpleNamespace(RandomState=RecRS)
    def __getattr__(self,n): return getattr(self._r,n)
mc.np = NS(np)
def target(x):
    v = -0.5*np.sum(x**2) if np.all(np.abs(x)<1.5) else -np.inf
    LOG.append(('t',x.copy(),v)); return v
sig=np.array([0.7,1.1]); warm=5; n=40
ch = mc.metropolis(n, np.array([0.1,0.2]), target, sig, warmup=warm, seed=7)
# offline checker
ev=LOG; assert ev[0][0]=='t'; cur=ev[0][1]; tc=ev[0][2]; i=1; states=[]
while i<len(ev):
    z=ev[i]; t=ev[i+1]; u=ev[i+2]; i+=3
    assert z[0]=='z' and t[0]=='t' and u[0]=='u'
    prop = cur+sig*z[1]; assert np.array_equal(prop,t[1])
    acc = np.isfinite(t[2]) and (u[1] < np.exp(t[2]-tc))
    if acc: cur,tc=prop,t[2]
    states.append(cur.copy())
print('trace check equal:', np.array_equal(np.array(states)[warm:], ch), len(states), ch.shape)
mc.np = np
