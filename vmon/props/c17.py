"""C17 - Regression adjustment and model comparison equal their formulas.

Reference-model monitor (DESIGN.md section 5 / C17).

adjust_posterior: the real function is called on a Sample built directly from generated arrays (and,
for a fraction of the cases, on the Sample returned by a real Rejection run) together with a real
ElfiModel whose Summary nodes carry the observed summaries.  Oracle per parameter: finite rows =
rows whose *used* summaries and this parameter are finite; numpy.linalg.lstsq with an intercept
column on those rows; adjusted = theta - (S - S_obs) @ slope, in the original row order; a row
whose used summaries equal the observed ones exactly comes back unchanged; a second call with the
summaries re-expressed through a well-conditioned invertible affine map (new model, new observed)
returns the same adjusted values.

compare_models: the real function on directly built Sample objects with pairwise distinct
discrepancies; oracle = share of the n_min jointly smallest discrepancies / n_sim * prior weight,
normalised; sums to one; permuting the models (and their weights) permutes the result.
"""
import functools
import math

import numpy as np

from vmon.core import Skip, Violation

PROPERTY = 'C17'
LEVEL = 'exploration'
TECHNIQUE = ('runtime monitoring: reference-model monitor on adjust_posterior (numpy.linalg.lstsq with intercept on the finite rows, '
             'unchanged-draw and affine re-expression checks, direct Samples and real Rejection runs) and on compare_models '
             '(formula, sums to one, permutation equivariance)')
LEVEL_TEXT = ('Held on every generated input: the real adjust_posterior / compare_models are run on generated samples with injected '
              'non-finite entries, planted rows equal to the observation, subsets and orderings of summaries and parameters, random prior '
              'weights and model orderings, and compared with independent recomputations of the stated formulas. Exploration, not exhaustive; '
              'the right level because the property quantifies over all samples, sizes and orderings.')
LEVEL_NOTE = ('trusts: numpy.linalg.lstsq / cond, numpy sort; scalar summaries and scalar parameters (the documented domain of the adjustment); '
              'ill-conditioned or under-determined regressions are skipped for the numeric comparisons (counted)')
RULE = ('cases = (a) regression adjustment: 5-500 rows x 1-4 available summaries (a subset, in any order, is used) x 1-4 parameters '
        '(all, or a subset in any order) x injected NaN/+-inf in used summaries, unused summaries, parameters x planted rows equal to the '
        'observed summaries x summary scales/offsets x a random well-conditioned affine re-expression; a tenth of them on the Sample '
        'returned by a real Rejection run; (b) model comparison: 2-5 models x 1-60 samples each x n_sim x prior weights (none | normalised | '
        'unnormalised) x sorted/unsorted distinct discrepancies x a random model permutation; distinct = hash of the case; non-trivial = '
        '(a) at least 2 used summaries or at least one non-finite row, (b) at least 2 models')
ASSUMPTIONS = [
    'adjusted values are compared with rtol 1e-6 (atol 1e-7 * (max|theta| + max|adjustment|)); parameters whose design matrix [1, S-S_obs] '
    'on the finite rows has condition number > 1e6 or fewer than (number of summaries + 2) finite rows are skipped for the numeric '
    'comparisons (the least-squares slope is not determined to that accuracy); every generated parameter keeps at least that many finite rows',
    'a draw whose used summaries equal the observed ones must come back within 1e-9*(1+|theta|) of the accepted value',
    'affine re-expression S -> S A^T + c with cond(A) <= 30, applied by the harness to the sample outputs and the observed summaries '
    '(a second ElfiModel); rows with a non-finite summary stay non-finite under the map',
    'compare_models: "jointly smallest" = the n_min smallest of the concatenated discrepancies, n_min = smallest sample size (as documented); '
    'discrepancies are pairwise distinct (ties at the cut leave the share undetermined); prior weights are positive',
]
CONFIG = {
    'quick': {'shards': 16, 'cases': 600, 'timeout': 600, 'floor': 1920},
    'thorough': {'shards': 32, 'cases': 12000, 'timeout': 5400, 'floor': 76800},
}
REQUIRED = ['adjust_calls', 'params_formula_checked', 'rows_formula_checked', 'nonfinite_rows_dropped', 'params_with_own_nonfinite',
            'unused_summary_nonfinite_kept', 'unchanged_draws_checked', 'affine_params_checked', 'subset_parameter_cases',
            'reordered_summary_cases', 'e2e_rejection_cases', 'reused_adjustment_object_cases', 'summaries_in_extreme_units', 'compare_calls', 'compare_formula_checked', 'compare_sum_checked',
            'compare_permutation_checked', 'compare_mixed_shares', 'compare_with_priors', 'compare_integer_priors', 'compare_unequal_n_sim', 'compare_unequal_n_samples']


# ----------------------------------------------------------------------------------------
# model pieces (module level)
def _sim(*theta, batch_size=1, random_state=None, width=1, coefs=None, noise=0.3):
    th = np.column_stack([np.broadcast_to(np.asarray(t, dtype=float).reshape(-1), (batch_size,)) for t in theta])
    C = np.asarray(coefs, dtype=float)
    return th @ C + noise * random_state.normal(size=(batch_size, width))


def _col(x, j=0):
    return x[:, j]


def _build_model(pnames, snames, observed, coefs=None, with_distance=False):
    """ElfiModel with uniform priors, a simulator with `observed` (1, K) and K scalar column summaries."""
    import elfi
    K = len(snames)
    m = elfi.ElfiModel(name='c17')
    priors = [elfi.Prior('uniform', -1.0, 2.0, model=m, name=p) for p in pnames]
    if coefs is None:
        coefs = np.ones((len(pnames), K))
    sim = elfi.Simulator(functools.partial(_sim, width=K, coefs=np.asarray(coefs).tolist()), *priors,
                         observed=np.asarray(observed, dtype=float).reshape(1, K), model=m, name='SIM')
    sums = [elfi.Summary(functools.partial(_col, j=j), sim, model=m, name=s) for j, s in enumerate(snames)]
    if with_distance:
        elfi.Distance('euclidean', *sums, model=m, name='d')
    return m


# ----------------------------------------------------------------------------------------
def gen_cases(ctx):
    rng = ctx.rng
    for _ in range(ctx.ncases):
        r = rng.random()
        seed = int(rng.integers(0, 2 ** 31 - 1))
        if r < 0.36:
            nm = int(rng.integers(2, 6))
            case = {'kind': 'compare', 'seed': seed, 'n_models': nm,
                    'n_samples': [1 if rng.random() < 0.06 else int(rng.choice([3, 5, 8, 13, 20, 40, 60])) for _ in range(nm)],
                    'n_sim': [int(rng.choice([10, 100, 100, 250, 1000, 12345])) for _ in range(nm)],
                    'priors': str(rng.choice(['none', 'normalised', 'unnormalised', 'integer', 'integer_list'])),
                    'sorted': bool(rng.random() < 0.5),
                    'overlap': str(rng.choice(['full', 'full', 'shifted', 'shifted', 'disjoint']))}
            yield case
            continue
        K = int(rng.integers(1, 5))
        P = int(rng.integers(1, 5))
        k_used = int(rng.integers(1, K + 1))
        used = [int(x) for x in rng.permutation(K)[:k_used]]
        if rng.random() < 0.5:
            used = sorted(used)
        if rng.random() < 0.5:
            psel = None
        else:
            psel = [int(x) for x in rng.permutation(P)[:int(rng.integers(1, P + 1))]]
        nmin = k_used + 4
        rr = rng.random()
        n = int(rng.integers(max(5, nmin), 13)) if rr < 0.3 else (int(rng.integers(13, 80)) if rr < 0.8 else int(rng.integers(80, 501)))
        case = {'kind': 'adjust', 'seed': seed, 'n': n, 'K': K, 'P': P, 'used': used, 'params': psel,
                'nonfinite': str(rng.choice(['none', 'few', 'few', 'many'])),
                'planted': int(rng.choice([0, 1, 1, 2])),
                'scales': str(rng.choice(['unit', 'mixed', 'offset', 'huge', 'tiny'])),
                'e2e': False}
        if r > 0.9:
            case['kind'] = 'adjust'
            case['e2e'] = True
            case['n'] = int(rng.integers(max(8, nmin), 60))
            case['bs'] = int(rng.choice([10, 50, 100]))
            case['n_sim'] = int(case['n'] * rng.choice([2, 5, 10]))
        yield case


# ----------------------------------------------------------------------------------------
def _inject(rg, arr_list, budget, mode):
    """Put NaN / +-inf into random entries of the given 1-d arrays (in place); returns number injected."""
    if mode == 'none' or budget <= 0:
        return 0
    k = int(rg.integers(1, 3)) if mode == 'few' else int(rg.integers(2, max(3, budget + 1)))
    k = min(k, budget)
    for _ in range(k):
        a = arr_list[int(rg.integers(0, len(arr_list)))]
        a[int(rg.integers(0, len(a)))] = float(rg.choice([np.nan, np.inf, -np.inf]))
    return k


def _oracle_param(Xd, th):
    """Returns (finite mask, reference adjusted values or None when skipped, reason, scale)."""
    fin = np.isfinite(Xd).all(axis=1) & np.isfinite(th)
    k = Xd.shape[1]
    if fin.sum() < k + 2:
        return fin, None, 'too_few_rows', None
    # least squares in units of each column's own spread: the fitted correction slope * (s - s_obs) does not depend on the
    # units of the summaries, and the conditioning that matters is that of the unit-free design matrix
    u = np.abs(Xd[fin]).max(axis=0)
    u = np.where(u > 0, u, 1.0)
    Z = Xd[fin] / u
    A = np.column_stack([np.ones(int(fin.sum())), Z])
    if np.linalg.cond(A) > 1e6:
        return fin, None, 'ill_conditioned', None
    beta = np.linalg.lstsq(A, th[fin], rcond=None)[0][1:]
    corr = Z @ beta
    ref = th[fin] - corr
    scale = float(np.abs(th[fin]).max() + np.abs(corr).max())
    return fin, ref, None, scale


def _run_adjust(ctx, case):
    import elfi
    from elfi.methods.post_processing import adjust_posterior
    from elfi.methods.results import Sample

    rg = np.random.default_rng(case['seed'])
    K, P, n = case['K'], case['P'], case['n']
    pnames = ['p%d' % i for i in range(P)]
    snames = ['s%d' % j for j in range(K)]
    used = list(case['used'])
    used_names = [snames[j] for j in used]
    sel_names = None if case['params'] is None else [pnames[i] for i in case['params']]
    eff_names = pnames if sel_names is None else sel_names
    k = len(used)

    if case['scales'] == 'unit':
        sc, off = np.ones(K), np.zeros(K)
    elif case['scales'] in ('huge', 'tiny'):
        # summaries measured in units that make every regression slope tiny (or huge): the adjustment slope * (s - s_obs) is unit-free
        sc = 10.0 ** (rg.uniform(8, 12, size=K) if case['scales'] == 'huge' else rg.uniform(-12, -8, size=K))
        off = rg.normal(size=K) * sc
        ctx.event('summaries_in_extreme_units')
    elif case['scales'] == 'mixed':
        sc, off = 10.0 ** rg.uniform(-2, 2, size=K), rg.normal(size=K)
    else:
        sc, off = np.ones(K), rg.normal(size=K) * 20.0
    obs = off + sc * rg.normal(size=K) * 0.5

    if case['e2e']:
        coefs = rg.normal(size=(P, K)) * sc
        m = _build_model(pnames, snames, obs, coefs=coefs, with_distance=True)
        res = elfi.Rejection(m['d'], batch_size=case['bs'], output_names=list(snames), seed=case['seed'] % (2 ** 31)).sample(
            n, n_sim=case['n_sim'], bar=False)
        sample = res
        X = np.column_stack([np.asarray(res.outputs[s], dtype=float) for s in snames])
        TH = {p: np.asarray(res.outputs[p], dtype=float).copy() for p in pnames}
        ctx.event('e2e_rejection_cases')
    else:
        X = off + sc * rg.normal(size=(n, K))
        mix = rg.normal(size=(K, P)) / sc[:, None]
        TH = {}
        for i, p in enumerate(pnames):
            TH[p] = rg.uniform(-1, 1, size=n) * 10.0 ** rg.uniform(-1, 1) + (X - off) @ mix[:, i] + rg.normal() * 3
        planted = [int(x) for x in rg.choice(n, size=min(case['planted'], n), replace=False)]
        for r in planted:
            X[r, used] = obs[used]
        # non-finite entries: used summaries, unused summaries, parameters - at most `budget` rows can be lost
        budget = (n - (k + 3)) // 2
        cols_used = [X[:, j] for j in used]                    # views
        cols_unused = [X[:, j] for j in range(K) if j not in used]
        targets = cols_used + [TH[p] for p in pnames]
        _inject(rg, targets, budget, case['nonfinite'])
        if cols_unused and case['nonfinite'] != 'none':
            _inject(rg, cols_unused, 3, 'few')
        outputs = {'d': np.sort(rg.random(n))}
        for j, s in enumerate(snames):
            outputs[s] = X[:, j].copy()
        for p in pnames:
            outputs[p] = TH[p].copy()
        m = _build_model(pnames, snames, obs)
        sample = Sample('Rejection', outputs, list(pnames), discrepancy_name='d', n_sim=10 * n, threshold=1.0)

    Xd = X[:, used] - obs[used]
    masks = {p: np.isfinite(Xd).all(axis=1) & np.isfinite(TH[p]) for p in eff_names}
    if any(int(v.sum()) < k + 2 for v in masks.values()):
        raise Skip('fewer finite rows than summaries + 2')      # out of domain (the regression is under-determined)

    kw_adj = {}
    if case['seed'] % 3 == 0:
        # a user-supplied adjustment object that was already fitted to ANOTHER sample (other slopes, other
        # non-finite rows, all parameters): the answer for this sample must not depend on that history
        from elfi.methods.post_processing import LinearAdjustment
        user_adj = LinearAdjustment()
        rg0 = np.random.default_rng(case['seed'] + 7)
        X0 = off + sc * rg0.normal(size=(n, K))
        out0 = {'d': np.sort(rg0.random(n))}
        for j, s_ in enumerate(snames):
            out0[s_] = X0[:, j].copy()
        for p_ in pnames:
            out0[p_] = rg0.normal(size=n) * 3.0 - 2.0 * (X0[:, used[0]] - off[used[0]]) / sc[used[0]]
        out0[pnames[-1]][0] = np.nan
        adjust_posterior(Sample('Rejection', out0, list(pnames), discrepancy_name='d', n_sim=10 * n, threshold=1.0), m, list(used_names),
                         adjustment=user_adj)
        kw_adj = {'adjustment': user_adj}
        ctx.event('reused_adjustment_object_cases')
    adj = adjust_posterior(sample, m, list(used_names), None if sel_names is None else list(sel_names), **kw_adj)
    ctx.event('adjust_calls')
    if sel_names is not None:
        ctx.event('subset_parameter_cases')
    if used != sorted(used):
        ctx.event('reordered_summary_cases')
    if sorted(adj.outputs.keys()) != sorted(eff_names):
        raise Violation('adjusted-parameters', 'adjusted sample holds %r, requested parameters %r' % (sorted(adj.outputs.keys()), eff_names))

    fin_sum = np.isfinite(Xd).all(axis=1)
    unused_bad = np.zeros(n, bool)
    for j in range(K):
        if j not in used:
            unused_bad |= ~np.isfinite(X[:, j])
    any_nonfinite_row = False
    checked = {}
    for p in eff_names:
        th = TH[p]
        fin, ref, why, scale = _oracle_param(Xd, th)
        got = np.asarray(adj.outputs[p], dtype=float)
        if got.shape != (int(fin.sum()),):
            raise Violation('finite-rows', 'adjusted %r has shape %r; %d of %d rows have finite used summaries and finite %r' % (
                p, got.shape, int(fin.sum()), n, p), {'nonfinite_summary_rows': np.where(~fin_sum)[0][:20],
                                                     'nonfinite_param_rows': np.where(~np.isfinite(th))[0][:20]})
        if not np.all(np.isfinite(got)):
            raise Violation('adjusted-nonfinite', 'adjusted %r contains non-finite values although only finite rows may be used' % p)
        if (~fin).any():
            any_nonfinite_row = True
            ctx.event('nonfinite_rows_dropped', int((~fin).sum()))
        if (~np.isfinite(th) & fin_sum).any():
            ctx.event('params_with_own_nonfinite')
        if (unused_bad & fin).any():
            ctx.event('unused_summary_nonfinite_kept', int((unused_bad & fin).sum()))
        # unchanged draws: rows whose used summaries equal the observed ones exactly
        pos = np.cumsum(fin) - 1
        for r in np.where(fin & np.all(Xd == 0.0, axis=1))[0]:
            if not abs(got[pos[r]] - th[r]) <= 1e-9 * (1 + abs(th[r])):
                raise Violation('unchanged-draw', 'row %d of %r has simulated summaries equal to the observed ones but was changed from %r to %r' % (
                    r, p, float(th[r]), float(got[pos[r]])))
            ctx.event('unchanged_draws_checked')
        if ref is None:
            ctx.event('skipped_' + why)
            continue
        err = np.abs(got - ref)
        tol = 1e-6 * np.abs(ref) + 1e-7 * scale
        if not np.all(err <= tol):
            i = int(np.argmax(err - tol))
            raise Violation('adjust-formula', 'adjusted %r differs from theta - (S - S_obs) @ lstsq slope on the finite rows: row %d got %r expected %r '
                            '(%d summaries %r, %d/%d finite rows)' % (p, i, float(got[i]), float(ref[i]), k, used_names, int(fin.sum()), n),
                            {'max_abs_err': float(err.max()), 'scale': scale})
        ctx.event('params_formula_checked')
        ctx.event('rows_formula_checked', int(fin.sum()))
        checked[p] = (got, scale)

    # invertible affine re-expression of the used summaries
    if checked:
        for _ in range(20):
            A = rg.normal(size=(k, k)) + np.eye(k) * rg.choice([-2.0, 0.0, 2.0])
            if np.linalg.cond(A) <= 30:
                break
        else:
            A = np.eye(k) * 2.0
        Xu = X[:, used]
        # offset of the size of the data (an O(1) offset added to summaries of size 1e-10 would only inject cancellation error)
        c = rg.normal(size=k) * float(np.abs(obs[used]).max() + np.abs(Xu[np.isfinite(Xu)]).max())
        X2 = X[:, used] @ A.T + c
        obs2 = obs[used] @ A.T + c
        bad_rows = ~np.isfinite(X[:, used]).all(axis=1)
        X2[bad_rows] = np.nan         # inf*0 / inf-inf are NaN anyway; make every entry of such a row non-finite
        if not np.array_equal(np.isfinite(X2).all(axis=1), ~bad_rows):
            raise Skip('affine image overflowed')
        s2names = ['r%d' % j for j in range(k)]
        m2 = _build_model(pnames, s2names, obs2)
        outputs2 = {p: TH[p].copy() for p in pnames}
        for j, s in enumerate(s2names):
            outputs2[s] = X2[:, j].copy()
        sample2 = Sample('Rejection', outputs2, list(pnames), n_sim=10 * n)
        adj2 = adjust_posterior(sample2, m2, list(s2names), None if sel_names is None else list(sel_names))
        Xd2 = X2 - obs2
        for p, (got, scale) in checked.items():
            fin2 = np.isfinite(Xd2).all(axis=1) & np.isfinite(TH[p])
            u2 = np.abs(Xd2[fin2]).max(axis=0)
            A2 = np.column_stack([np.ones(int(fin2.sum())), Xd2[fin2] / np.where(u2 > 0, u2, 1.0)])
            if np.linalg.cond(A2) > 1e4:      # rounding of either fit grows like eps * cond^2; 1e-6 is the tolerance below
                ctx.event('skipped_affine_ill_conditioned')
                continue
            got2 = np.asarray(adj2.outputs[p], dtype=float)
            if got2.shape != got.shape or not np.all(np.abs(got2 - got) <= 1e-6 * np.abs(got) + 1e-7 * scale):
                raise Violation('affine-invariance', 'adjusted %r changes when the summaries are re-expressed through an invertible affine map '
                                '(max abs difference %r)' % (p, float(np.abs(got2 - got).max()) if got2.shape == got.shape else None),
                                {'A': A, 'c': c})
            ctx.event('affine_params_checked')
    ctx.nontrivial(k >= 2 or any_nonfinite_row)
    ctx.distinct('adjust_class', 'k%d|P%s|%s|%s|e2e%d' % (k, 'all' if sel_names is None else len(sel_names), case['nonfinite'], case['scales'], case['e2e']))


# ----------------------------------------------------------------------------------------
def _compare_ref(disc, n_sim, priors):
    n_min = min(len(d) for d in disc)
    pairs = sorted((float(v), i) for i, d in enumerate(disc) for v in d)[:n_min]
    share = [sum(1 for _, i in pairs if i == j) for j in range(len(disc))]
    un = [share[j] / n_sim[j] * (1.0 if priors is None else priors[j]) for j in range(len(disc))]
    tot = math.fsum(un)
    return [u / tot for u in un], share


def _run_compare(ctx, case):
    from elfi.methods.model_selection import compare_models
    from elfi.methods.results import Sample

    rg = np.random.default_rng(case['seed'])
    nm = case['n_models']
    disc = []
    for i in range(nm):
        shift = {'full': 0.0, 'shifted': 0.25 * rg.random(), 'disjoint': 1.5 * i}[case['overlap']]
        d = rg.random(case['n_samples'][i]) + shift
        disc.append(np.sort(d) if case['sorted'] else d)
    allv = np.concatenate(disc)
    if len(np.unique(allv)) != len(allv):
        raise Skip('tied discrepancies')
    if case['priors'] == 'none':
        priors = None
    else:
        priors = rg.uniform(0.05, 1.0, size=nm)
        if case['priors'] == 'normalised':
            priors = priors / priors.sum()
        elif case['priors'] in ('integer', 'integer_list'):
            # prior odds written as whole numbers (an integer array or a plain list of ints) are positive weights too
            priors = rg.integers(1, int(rg.choice([4, 10, 1000])), size=nm)
            ctx.event('compare_integer_priors')
        else:
            priors = priors * float(rg.choice([0.5, 3.0, 10.0]))

    def mk(i):
        n = len(disc[i])
        return Sample('Rejection', {'t': rg.random(n), 'u': rg.random(n), 'd': disc[i].copy()}, ['t', 'u'], discrepancy_name='d',
                      n_sim=case['n_sim'][i], threshold=float(disc[i].max()))

    objs = [mk(i) for i in range(nm)]
    ref, share = _compare_ref(disc, case['n_sim'], None if priors is None else priors.tolist())
    def _pw(pr):
        return None if pr is None else ([int(x) for x in pr] if case['priors'] == 'integer_list' else pr.copy())
    got = np.asarray(compare_models(objs, _pw(priors)), dtype=float)
    ctx.event('compare_calls')
    if got.shape != (nm,):
        raise Violation('compare-shape', 'compare_models returned shape %r for %d models' % (got.shape, nm))
    if not abs(float(got.sum()) - 1.0) <= 1e-12:
        raise Violation('compare-sum', 'model probabilities sum to %r' % float(got.sum()), {'p': got})
    ctx.event('compare_sum_checked')
    if not np.all(np.abs(got - np.array(ref)) <= 1e-12 + 1e-10 * np.array(ref)):
        raise Violation('compare-formula', 'model probabilities %r differ from share/n_sim*prior normalised %r' % (got.tolist(), ref),
                        {'shares_of_n_min_smallest': share, 'n_sim': case['n_sim'], 'priors': priors, 'n_samples': case['n_samples']})
    ctx.event('compare_formula_checked')
    if priors is not None:
        ctx.event('compare_with_priors')
    if len(set(case['n_sim'])) > 1:
        ctx.event('compare_unequal_n_sim')
    if len(set(case['n_samples'])) > 1:
        ctx.event('compare_unequal_n_samples')
    if sum(1 for s_ in share if s_ > 0) >= 2:
        ctx.event('compare_mixed_shares')
    perm = rg.permutation(nm)
    if np.array_equal(perm, np.arange(nm)):
        perm = np.roll(perm, 1)
    got2 = np.asarray(compare_models([objs[i] for i in perm], _pw(None if priors is None else priors[perm])), dtype=float)
    if got2.shape != (nm,) or not np.all(np.abs(got2 - got[perm]) <= 1e-12 + 1e-10 * got[perm]):
        raise Violation('compare-permutation', 'permuting the models by %r gives %r, expected the permuted probabilities %r' % (
            perm.tolist(), got2.tolist(), got[perm].tolist()))
    ctx.event('compare_permutation_checked')
    ctx.nontrivial(nm >= 2)
    ctx.distinct('compare_class', 'm%d|%s|%s|%s' % (nm, case['priors'], case['overlap'], case['sorted']))


def run_case(ctx, case):
    if case['kind'] == 'compare':
        _run_compare(ctx, case)
    else:
        _run_adjust(ctx, case)
