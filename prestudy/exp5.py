import shim, numpy as np, elfi
m = elfi.ElfiModel(name='m')
t = elfi.Prior('uniform', 0, 1, model=m, name='t')
def sim(t, batch_size=1, random_state=None): return t + 0*random_state.randn(batch_size)
S = elfi.Simulator(sim, t, observed=np.array([0.5]), name='S')
def disc(s, observed):
    d = np.abs(s - observed[0])
    d[s > 0.3] = np.inf
    return d
d = elfi.Discrepancy(disc, S, name='d')
allb = []
rej = elfi.Rejection(m['d'], batch_size=5, seed=1, output_names=['S'])
cb = rej.computation_context.callback
def rec(batch, idx):
    allb.append((idx, {k: np.array(v) for k,v in batch.items()})); return cb(batch, idx)
rej.computation_context.callback = rec
s = rej.sample(5, n_sim=10, bar=False)
print('returned t', s.outputs['t'], 'd', s.outputs['d'], 'S', s.outputs['S'])
print('simulated t', np.concatenate([b['t'] for _,b in allb]))
print('simulated d', np.concatenate([b['d'] for _,b in allb]))
