"""Driver / worker core: sharding, three-valued verdicts, evidence, replay, known findings.

A property module (vmon/props/cNN.py) provides

    PROPERTY, LEVEL, TECHNIQUE, RULE, ASSUMPTIONS
    CONFIG = {'quick': {'shards':…, 'cases':…, 'timeout':…, 'floor':…}, 'thorough': {...}}
    REQUIRED = [counter names that must be > 0 for a 'held' verdict]
    gen_cases(ctx)        -> iterator of plain-data case dicts (uses ctx.rng, ctx.ncases …)
    run_case(ctx, case)   -> None; reports through ctx.event / ctx.nontrivial / ctx.violation
    classify(violation)   -> mechanism key (optional; default: violation['key'])
    EXHAUSTIVE            -> optional bool for the evidence file

The worker never prints VIOLATION; only the driver does, after known-finding classification.
"""
import collections
import hashlib
import importlib
import json
import os
import shutil
import signal
import subprocess
import sys
import tempfile
import time
import traceback

import numpy as np

ROOT = os.path.dirname(os.path.dirname(os.path.abspath(__file__)))
REPO = os.environ.get('VERIF_REPO', '/repo')
PYTHON = os.environ.get('VERIF_PYTHON', '/venv/bin/python')
# evidence/ and replays/ go under VERIF_OUT when set (mutation and seeded-change runs must not
# overwrite the evidence of the unchanged tree); default: the checkout itself
OUT = os.environ.get('VERIF_OUT') or None
DEPS = os.path.join(ROOT, '.deps')


class Violation(Exception):
    """Raised by oracles and contracts. key = short mechanism-ish label of what was refuted."""

    def __init__(self, key, msg='', witness=None):
        super().__init__('%s: %s' % (key, msg))
        self.key = key
        self.msg = msg
        self.witness = witness


class Skip(Exception):
    """The case is outside the property's domain or numerically degenerate (counted)."""


class CaseWatchdog(BaseException):
    """Raised by the per-case alarm: the case is abandoned and counted as skipped (never a verdict)."""


def _alarm(*_a):
    raise CaseWatchdog()


def jd(o):
    """json default: numpy and friends to plain data."""
    if isinstance(o, np.ndarray):
        if o.size > 400:
            return {'ndarray_shape': list(o.shape), 'dtype': str(o.dtype),
                    'sha': hashlib.sha256(np.ascontiguousarray(o).tobytes()).hexdigest()[:16],
                    'head': o.ravel()[:20].tolist()}
        return o.tolist()
    if isinstance(o, (np.integer,)):
        return int(o)
    if isinstance(o, (np.floating,)):
        return float(o)
    if isinstance(o, (np.bool_,)):
        return bool(o)
    if isinstance(o, (set, frozenset)):
        return sorted(o, key=repr)
    if isinstance(o, bytes):
        return o.hex()
    if isinstance(o, complex):
        return [o.real, o.imag]
    return repr(o)


def dumps(o, **kw):
    return json.dumps(o, default=jd, sort_keys=True, **kw)


def fingerprint(case):
    return hashlib.sha256(dumps(case).encode()).hexdigest()[:20]


def propnum(prop):
    return int(prop[1:])


def _through_elfi(tb):
    """True when the traceback passes through a frame of the elfi package under /repo."""
    root = os.path.join(os.path.realpath(REPO), 'elfi') + os.sep
    for fs in traceback.extract_tb(tb):
        if os.path.realpath(fs.filename).startswith(root):
            return True
    return False


class Ctx:
    """Per-shard context handed to gen_cases / run_case."""

    MAX_PER_KEY = 3

    def __init__(self, prop, tier, seed, shard, nshards, ncases, deadline=None, cfg=None):
        self.prop, self.tier, self.seed = prop, tier, seed
        self.shard, self.nshards, self.ncases = shard, nshards, ncases
        self.cfg = cfg or {}
        self.ss = np.random.SeedSequence([seed, propnum(prop), shard])
        self.rng = np.random.default_rng(self.ss)
        self.deadline = deadline
        self.counters = collections.Counter()
        self.skips = collections.Counter()
        self.evaluations = 0
        self.nontrivial_fps = set()
        self.samples = []
        self.violations = []
        self.viol_counts = collections.Counter()
        self.harness_errors = []
        self._nontrivial = False
        self._case = None

    # -- reporting API used by property modules
    def event(self, name, n=1):
        self.counters[name] += int(n)

    def nontrivial(self, flag=True):
        if flag:
            self._nontrivial = True

    def distinct(self, kind, value):
        """Count distinct observed things (interleavings, shapes...) - merged as sets."""
        self.counters  # keep linter quiet
        self.__dict__.setdefault('distincts', collections.defaultdict(set))[kind].add(
            value if isinstance(value, str) else fingerprint(value))

    def violation(self, key, msg='', witness=None, kind='oracle', case=None):
        self.viol_counts[key] += 1
        if self.viol_counts[key] <= self.MAX_PER_KEY:
            self.violations.append({'key': key, 'kind': kind, 'msg': str(msg)[:2000],
                                    'witness': json.loads(dumps(witness)) if witness is not None else None,
                                    'case': json.loads(dumps(case if case is not None else self._case))})

    def out_of_time(self):
        return self.deadline is not None and time.time() > self.deadline

    # -- case evaluation
    def evaluate(self, fn, case):
        self._case = case
        self._nontrivial = False
        limit = int(self.cfg.get('case_timeout', 180))
        t_case = time.time()
        if limit and hasattr(signal, 'SIGALRM'):
            signal.signal(signal.SIGALRM, _alarm)
            signal.alarm(limit)
        try:
            try:
                fn(self, case)
            finally:
                if limit and hasattr(signal, 'SIGALRM'):
                    signal.alarm(0)
        except CaseWatchdog:
            self.skips['watchdog: case exceeded %ds (abandoned, not a verdict)' % limit] += 1
        except Violation as v:
            self.violation(v.key, v.msg, v.witness)
        except Skip as s:
            self.skips[str(s) or 'skip'] += 1
        except (KeyboardInterrupt, SystemExit):
            raise
        except BaseException as e:  # noqa
            tb = traceback.format_exc()
            if _through_elfi(e.__traceback__):
                self.violation('crash:' + type(e).__name__, tb[-1800:], kind='crash')
            else:
                self.harness_errors.append(tb[-3000:])
        self.evaluations += 1
        self.slowest = max(getattr(self, 'slowest', 0.0), time.time() - t_case)
        if self._nontrivial:
            self.nontrivial_fps.add(fingerprint(case))
        if len(self.samples) < 2 and (self._nontrivial or self.evaluations > 3):
            self.samples.append(json.loads(dumps(case)))

    def result(self):
        return {
            'shard': self.shard, 'evaluations': self.evaluations,
            'nontrivial_fps': sorted(self.nontrivial_fps),
            'counters': dict(self.counters), 'skips': dict(self.skips),
            'distincts': {k: sorted(v) for k, v in self.__dict__.get('distincts', {}).items()},
            'samples': self.samples, 'violations': self.violations,
            'viol_counts': dict(self.viol_counts), 'harness_errors': self.harness_errors[:3],
            'n_harness_errors': len(self.harness_errors), 'slowest_case_s': round(getattr(self, 'slowest', 0.0), 2),
        }


def load_module(prop):
    return importlib.import_module('vmon.props.' + prop.lower())


def setup_paths():
    for p in (DEPS, ROOT, REPO):
        if p in sys.path:
            sys.path.remove(p)
    sys.path.insert(0, DEPS)
    sys.path.insert(0, ROOT)
    sys.path.insert(0, REPO)


def ensure_deps():
    """Install the monitor libraries (icontract, deal) beside the framework, offline."""
    marker = os.path.join(DEPS, 'icontract')
    if os.path.isdir(marker):
        return
    cmd = [PYTHON, '-m', 'pip', 'install', '-q', '--no-index', '--find-links', '/opt/veriftools/wheels',
           '--target', DEPS, 'icontract', 'deal']
    subprocess.run(cmd, check=True, stdout=subprocess.DEVNULL, stderr=subprocess.STDOUT, timeout=600)


def child_env():
    env = dict(os.environ)
    env.setdefault('PYTHONHASHSEED', '0')
    env['PYTHONDONTWRITEBYTECODE'] = '1'
    env['PYTHONPATH'] = os.pathsep.join([REPO, ROOT, DEPS])
    env['OMP_NUM_THREADS'] = '1'
    env['OPENBLAS_NUM_THREADS'] = '1'
    env['MKL_NUM_THREADS'] = '1'
    env['MPLBACKEND'] = 'Agg'
    return env


def worker_main(argv):
    prop, tier, seed, shard, nshards, out = argv[0], argv[1], int(argv[2]), int(argv[3]), int(argv[4]), argv[5]
    import faulthandler
    faulthandler.enable()
    setup_paths()
    from vmon import compat
    elfi = compat.install()
    assert os.path.realpath(elfi.__file__).startswith(os.path.realpath(REPO) + os.sep), elfi.__file__
    mod = load_module(prop)
    cfg = mod.CONFIG[tier]
    ncases = cfg['cases']
    soft = cfg.get('soft_s')
    ctx = Ctx(prop, tier, seed, shard, nshards, ncases, cfg=cfg,
              deadline=(time.time() + soft) if soft else None)
    t0 = time.time()
    try:
        if hasattr(mod, 'run_shard'):
            mod.run_shard(ctx)
        else:
            for case in mod.gen_cases(ctx):
                if ctx.out_of_time():
                    ctx.event('_deadline_cut')
                    break
                ctx.evaluate(mod.run_case, case)
    except BaseException:  # noqa
        ctx.harness_errors.append(traceback.format_exc()[-3000:])
    res = ctx.result()
    res['wall_s'] = time.time() - t0
    with open(out, 'w') as f:
        f.write(dumps(res))
    return 0


def load_known():
    path = os.path.join(ROOT, 'known_findings.json')
    if not os.path.exists(path):
        return []
    with open(path) as f:
        return json.load(f).get('findings', [])


def run(prop, tier, seed, only_shards=None):
    """Driver: run all shards in subprocesses, merge, decide, write evidence."""
    t0 = time.time()
    setup_paths()
    ensure_deps()
    mod = load_module(prop)
    cfg = mod.CONFIG[tier]
    nshards = cfg['shards']
    timeout = cfg.get('timeout', 900)
    par = int(os.environ.get('VERIF_JOBS', cfg.get('jobs', 16)))
    work = tempfile.mkdtemp(prefix='vmon-%s-' % prop)
    env = child_env()
    pending = list(range(nshards)) if only_shards is None else list(only_shards)
    running = {}
    results, failures = [], []
    try:
        while pending or running:
            while pending and len(running) < par:
                s = pending.pop(0)
                out = os.path.join(work, 'shard%d.json' % s)
                log = open(os.path.join(work, 'shard%d.log' % s), 'w')
                sd = os.path.join(work, 'tmp%d' % s)
                os.makedirs(sd)
                e = dict(env, TMPDIR=sd)
                p = subprocess.Popen([PYTHON, '-m', 'vmon.worker', prop, tier, str(seed), str(s),
                                      str(nshards), out], cwd=ROOT, env=e, stdout=log, stderr=subprocess.STDOUT)
                running[s] = (p, time.time(), out, log)
            time.sleep(0.05)
            for s, (p, ts, out, log) in list(running.items()):
                rc = p.poll()
                if rc is None:
                    if time.time() - ts > timeout:
                        p.kill()
                        p.wait()
                        failures.append({'shard': s, 'reason': 'watchdog timeout %ds' % timeout})
                        log.close()
                        del running[s]
                    continue
                log.close()
                del running[s]
                if os.path.exists(out):
                    with open(out) as f:
                        results.append(json.load(f))
                else:
                    with open(os.path.join(work, 'shard%d.log' % s)) as f:
                        tail = f.read()[-1500:]
                    failures.append({'shard': s, 'reason': 'worker died rc=%s' % rc, 'log': tail})
    finally:
        shutil.rmtree(work, ignore_errors=True)
    return decide(mod, prop, tier, seed, results, failures, time.time() - t0)


def decide(mod, prop, tier, seed, results, failures, wall):
    cfg = mod.CONFIG[tier]
    counters = collections.Counter()
    skips = collections.Counter()
    viol_counts = collections.Counter()
    fps = set()
    distincts = collections.defaultdict(set)
    samples, violations, herrs = [], [], []
    evaluations = 0
    n_herr = 0
    for r in sorted(results, key=lambda r: r['shard']):
        evaluations += r['evaluations']
        counters.update(r['counters'])
        skips.update(r['skips'])
        viol_counts.update(r['viol_counts'])
        fps.update(r['nontrivial_fps'])
        for k, v in r['distincts'].items():
            distincts[k].update(v)
        if len(samples) < 4:
            samples.extend(r['samples'][:1])
        violations.extend(r['violations'])
        herrs.extend(r['harness_errors'])
        n_herr += r['n_harness_errors']
    for k, v in distincts.items():
        counters['distinct_' + k] = len(v)

    known = load_known()
    open_keys = {(k['property'], k['key']): k for k in known if k.get('status') == 'open'}
    classify = getattr(mod, 'classify', lambda v: v['key'])
    lines = []
    new_viol, known_hit = [], collections.OrderedDict()
    os.makedirs(os.path.join(OUT or ROOT, 'replays'), exist_ok=True)
    seen_keys = set()
    for v in violations:
        key = classify(v)
        v['mechanism'] = key
        if (prop, key) in open_keys:
            known_hit.setdefault(key, open_keys[(prop, key)])
            continue
        new_viol.append(v)
        if key in seen_keys and len(seen_keys) >= 1 and sum(1 for x in new_viol if x['mechanism'] == key) > 2:
            continue
        seen_keys.add(key)
        h = fingerprint({'k': key, 'c': v['case']})[:12]
        path = os.path.join(OUT or ROOT, 'replays', '%s-%s.json' % (prop, h))
        with open(path, 'w') as f:
            f.write(dumps({'property': prop, 'tier': tier, 'seed': seed, 'violation': v, 'case': v['case']}, indent=1))
        lines.append('VIOLATION property=%s replay=%s key=%s :: %s' % (prop, path, key, v['msg'].strip().splitlines()[-1][:300] if v['msg'].strip() else ''))
    for key, k in known_hit.items():
        lines.append('KNOWN-FINDING: property=%s %s [%s]' % (prop, k.get('what', ''), key))

    floor = cfg.get('floor', 2)
    required = getattr(mod, 'REQUIRED', [])
    missing = [c for c in required if counters.get(c, 0) <= 0]
    inconclusive = []
    if failures:
        inconclusive.append('shard failures: ' + '; '.join('%s:%s' % (f['shard'], f['reason']) for f in failures[:4]))
    if n_herr:
        inconclusive.append('%d harness errors' % n_herr)
    if missing:
        inconclusive.append('monitor counters at zero: ' + ','.join(missing))
    if len(fps) < max(2, floor):
        inconclusive.append('distinct non-trivial cases %d below floor %d' % (len(fps), max(2, floor)))

    if new_viol:
        verdict, rc = 'violated', 1
    elif inconclusive:
        verdict, rc = 'inconclusive', 2
    else:
        verdict, rc = 'held', 0

    coverage = {
        'evaluations': int(evaluations),
        'distinct_nontrivial': len(fps),
        'rule': mod.RULE,
        'samples': samples[:4] or [{'note': 'no case completed'}],
        'monitor_counters': {k: int(v) for k, v in sorted(counters.items())},
        'skipped': dict(skips),
        'shards': len(results),
        'floor_nontrivial': floor,
        'slowest_case_s': max([r.get('slowest_case_s', 0) for r in results] or [0]),
        'required_counters': required,
        'violation_counts_by_key': dict(viol_counts),
        'known_findings_observed': list(known_hit.keys()),
    }
    if getattr(mod, 'EXHAUSTIVE', None) is not None:
        coverage['exhaustive'] = bool(mod.EXHAUSTIVE if not callable(mod.EXHAUSTIVE) else mod.EXHAUSTIVE(tier))
    if getattr(mod, 'EXHAUSTIVE_NOTE', None):
        coverage['exhaustive_note'] = mod.EXHAUSTIVE_NOTE
    from vmon import compat
    ev = {
        'property_id': prop, 'tier': tier, 'seed': int(seed), 'level': mod.LEVEL,
        'coverage': coverage,
        'assumptions': list(getattr(mod, 'ASSUMPTIONS', [])) + list(compat.ASSUMPTIONS),
        'wall_s': round(wall, 2), 'violations': len(new_viol), 'verdict': verdict,
        'technique': getattr(mod, 'TECHNIQUE', ''),
        'inconclusive_reasons': inconclusive,
    }
    os.makedirs(os.path.join(OUT or ROOT, 'evidence'), exist_ok=True)
    with open(os.path.join(OUT or ROOT, 'evidence', '%s.json' % prop), 'w') as f:
        f.write(dumps(ev, indent=1) + '\n')

    for ln in lines:
        print(ln)
    for he in herrs[:2]:
        print('HARNESS-ERROR property=%s\n%s' % (prop, he))
    for fl in failures[:3]:
        print('SHARD-FAILURE property=%s %s\n%s' % (prop, fl['reason'], fl.get('log', '')))
    if verdict == 'inconclusive':
        print('INCONCLUSIVE property=%s reason=%s' % (prop, ' | '.join(inconclusive)))
    top = ', '.join('%s=%d' % kv for kv in sorted(counters.items())[:14])
    print('%s property=%s tier=%s seed=%d evaluations=%d distinct_nontrivial=%d wall=%.1fs [%s]' % (
        verdict.upper(), prop, tier, seed, evaluations, len(fps), wall, top))
    return rc


def replay(prop, path):
    setup_paths()
    ensure_deps()
    from vmon import compat
    compat.install()
    mod = load_module(prop)
    with open(path) as f:
        rec = json.load(f)
    tier = rec.get('tier', 'quick')
    ctx = Ctx(prop, tier, rec.get('seed', 0), 0, 1, 1, cfg=mod.CONFIG[tier])
    ctx.evaluate(mod.run_case, rec['case'])
    res = ctx.result()
    if res['violations']:
        open_keys = {(k['property'], k['key']): k for k in load_known() if k.get('status') == 'open'}
        classify = getattr(mod, 'classify', lambda v: v['key'])
        unknown = 0
        for v in res['violations']:
            print('REPLAYED violation key=%s kind=%s\n%s\nwitness=%s' % (v['key'], v['kind'], v['msg'], dumps(v['witness'])[:3000]))
            k = open_keys.get((prop, classify(v)))
            if k:
                print('KNOWN-FINDING: property=%s %s [%s]' % (prop, k.get('what', ''), classify(v)))
            else:
                unknown += 1
        if unknown:
            print('VIOLATION property=%s replay=%s' % (prop, path))
            return 1
        return 0
    if res['n_harness_errors']:
        print('HARNESS-ERROR\n' + res['harness_errors'][0])
        return 2
    print('replay of %s: no violation on the current tree' % path)
    return 0


def main(argv):
    if len(argv) < 2:
        print('usage: check <ID> <quick|thorough> | check <ID> --replay <path>')
        return 2
    prop = argv[0].upper()
    if argv[1] == '--replay':
        return replay(prop, argv[2])
    tier = argv[1]
    seed = int(os.environ.get('VERIF_SEED', '0') or 0)
    return run(prop, tier, seed)
