import compat, numpy as np, elfi, warnings, sys, random, scipy.stats as ss
compat.install(); warnings.simplefilter('ignore')
import logging; logging.disable(logging.CRITICAL)
from elfi.methods.utils import weighted_var
def mk(kind):
    m=elfi.ElfiModel(name='m')
    if kind=='bounded': a=elfi.Prior('uniform',0,2,model=m,name='a'); b=elfi.Prior('uniform',-1,2,model=m,name='b'); pdf=lambda t: ss.uniform(0,2).pdf(t[:,0])*ss.uniform(-1,2).pdf(t[:,1])
    elif kind=='unbounded': a=elfi.Prior('norm',1,1,model=m,name='a'); b=elfi.Prior('norm',0,2,model=m,name='b'); pdf=lambda t: ss.norm(1,1).pdf(t[:,0])*ss.norm(0,2).pdf(t[:,1])
    elif kind=='hier': a=elfi.Prior('uniform',0.2,2,model=m,name='a'); b=elfi.Prior('uniform',0,a,model=m,name='b'); pdf=lambda t: ss.uniform(0.2,2).pdf(t[:,0])*ss.uniform(0,t[:,0]).pdf(t[:,1])
    else: a=elfi.Prior('expon',0,1,model=m,name='a'); b=elfi.Prior('norm',a,0.5,model=m,name='b'); pdf=lambda t: ss.expon(0,1).pdf(t[:,0])*ss.norm(t[:,0],0.5).pdf(t[:,1])
    def sim(a,b,batch_size=1,random_state=None): return np.column_stack([a,b])+0.3*random_state.randn(batch_size,2)
    S=elfi.Simulator(sim,a,b,model=m,name='S',observed=np.array([[1.0,0.4]]))
    d=elfi.Distance('euclidean',S,model=m,name='d'); return m,pdf
def wq_adm(x,alpha,w):
    idx=np.argsort(x); xs=x[idx]; W=(w/w.sum())[idx]; c=np.cumsum(W); out=set()
    for i in range(len(xs)):
        lo=c[i]-W[i]; hi=c[i]
        if lo<alpha+1e-12 and alpha<=hi+1e-12 and W[i]>0: out.add(xs[i])
    return out
rng=random.Random(int(sys.argv[1])); viol=[]; n=0
for it in range(int(sys.argv[2])):
    kind=rng.choice(['bounded','unbounded','hier','mixed']); m,pdf=mk(kind); bs=rng.choice([1,5,20,100]); N=rng.choice([5,20,60]); seed=rng.randint(0,10**6)
    mode=rng.choice(['thr','q']); R=rng.randint(2,4)
    kw=dict(thresholds=sorted([rng.uniform(0.3,1.5) for _ in range(R)],reverse=True)) if mode=='thr' else dict(quantiles=[rng.choice([0.3,0.5,0.8]) for _ in range(R)])
    smc=elfi.SMC(m['d'],batch_size=bs,seed=seed); cons=[0]; u=smc.update
    def upd(b,i): cons[0]+=1; return u(b,i)
    smc.update=upd
    try:
        res=smc.sample(N,bar=False,**kw)
        if rng.random()<0.3:
            kw2=dict(thresholds=[kw['thresholds'][-1]*0.8]) if mode=='thr' else dict(quantiles=[0.5])
            res=smc.sample(N,bar=False,**kw2); kwall={k:kw[k]+kw2[k] for k in kw}
        else: kwall=kw
    except Exception as e: viol.append(('EXC',kind,repr(e)[:200])); continue
    n+=1; pops=res.populations
    if len(pops)!=len(list(kwall.values())[0]): viol.append(('npops',len(pops)))
    if res.n_sim!=sum(p.n_sim for p in pops) or res.n_sim!=bs*cons[0]: viol.append(('n_sim',res.n_sim,[p.n_sim for p in pops],bs*cons[0]))
    prev=None
    for r,p in enumerate(pops):
        th=np.column_stack([p.outputs['a'],p.outputs['b']]); dsc=p.outputs['d']
        if len(dsc)!=N: viol.append(('size',r))
        if mode=='thr':
            if not np.all(dsc<=kwall['thresholds'][r]): viol.append(('above threshold',r))
        elif r>0:
            adm=wq_adm(prev[2],kwall['quantiles'][r],prev[1])
            if not np.all(dsc<=max(adm)): viol.append(('above quantile threshold',r,dsc.max(),adm))
        pr=pdf(th)
        if not np.all(pr>0): viol.append(('zero prior',kind,r))
        if r==0: wref=np.ones(N)
        else:
            W=prev[1]/prev[1].sum(); q=np.zeros(N)
            for mu,wj in zip(prev[0],W): q+=wj*ss.multivariate_normal.pdf(th,mu,prev[3])
            wref=pr/q
        if not np.allclose(p.weights,wref,rtol=1e-8): viol.append(('weights',kind,r,np.abs(p.weights/wref-1).max()))
        cov=2*np.diag(weighted_var(th,p.weights))
        if not np.allclose(p.cov,cov,rtol=1e-10): viol.append(('cov',r))
        prev=(th,p.weights,dsc,p.cov)
print('runs',n,'viol',len(viol)); seen=set()
for v in viol:
    if v[0] not in seen: seen.add(v[0]); print(str(v)[:300])
