import compat, numpy as np, warnings, sys, math, scipy.stats as ss
from scipy.special import gammaln
compat.install(); warnings.simplefilter('ignore')
import logging; logging.disable(logging.CRITICAL)
from elfi.methods.bsl import pdf_methods as pm
from elfi.methods.inference.bsl import BSL
rs=np.random.RandomState(int(sys.argv[1])); viol=[]; n=0
def logc(k,v): return -k*v/2*math.log(2)-k*(k-1)/4*math.log(math.pi)-sum(gammaln(0.5*(v-i+1)) for i in range(1,k+1))
for it in range(int(sys.argv[2])):
    d=rs.randint(1,6); N=rs.randint(d+5,120)
    ssx=rs.randn(N,d)@(rs.randn(d,d)+2*np.eye(d))+rs.randn(d)*3; ssy=ssx.mean(0)+rs.randn(d)*rs.choice([0.1,1,3])
    mu=ssx.mean(0); S=np.atleast_2d(np.cov(ssx,rowvar=False)); n+=1
    got=pm.gaussian_syn_likelihood(ssx,ssy.reshape(1,-1)).item(); ref=ss.multivariate_normal.logpdf(ssy,mu,S)
    if not np.isclose(got,ref,rtol=1e-9): viol.append(('std',d,got,ref))
    # whitening
    if d<2: continue
    W=np.linalg.inv(np.linalg.cholesky(S+0.1*np.eye(d)))
    got=pm.gaussian_syn_likelihood(ssx,ssy,whitening=W).item(); x2=ssx@W.T; ref=ss.multivariate_normal.logpdf(W@ssy,x2.mean(0),np.atleast_2d(np.cov(x2,rowvar=False)))
    if not np.isclose(got,ref,rtol=1e-8): viol.append(('whiten',d,got,ref))
    # warton
    pen=rs.uniform(0,1); got=pm.gaussian_syn_likelihood(ssx,ssy,shrinkage='warton',penalty=pen).item()
    g=1-pen; sd=np.sqrt(np.diag(S+1e-5)); R=S/np.outer(sd,sd); Sg=np.outer(sd,sd)*(g*R+(1-g)*np.eye(d)); ref=ss.multivariate_normal.logpdf(ssy,mu,Sg)
    if not np.isclose(got,ref,rtol=1e-8): viol.append(('warton',d,got,ref))
    # ghurye olkin
    got=pm.gaussian_syn_likelihood_ghurye_olkin(ssx,ssy).item(); M=(N-1)*S; df=(ssy-mu).reshape(-1,1); psi=M-df@df.T/(1-1/N)
    sgn,ld=np.linalg.slogdet(psi)
    if sgn>0:
        ref=-d/2*math.log(2*math.pi)+logc(d,N-2)-logc(d,N-1)-d/2*math.log(1-1/N)-(N-d-2)/2*np.linalg.slogdet(M)[1]+(N-d-3)/2*ld
        if not np.isclose(got,ref,rtol=1e-8,atol=1e-8): viol.append(('ghurye',d,N,got,ref))
    # misspec
    gam=rs.randn(d)*0.5; 
    got=pm.syn_likelihood_misspec(ssx,ssy,gam,'mean'); ref=ss.multivariate_normal.logpdf(ssy,mu+np.sqrt(np.diag(S))*gam,S)
    if not np.isclose(got,ref,rtol=1e-9): viol.append(('mis-mean',d,got,ref))
    got=pm.syn_likelihood_misspec(ssx,ssy,np.abs(gam),'variance'); ref=ss.multivariate_normal.logpdf(ssy,mu,S+np.diag((np.sqrt(np.diag(S))*np.abs(gam))**2))
    if not np.isclose(got,ref,rtol=1e-9): viol.append(('mis-var',d,got,ref))
    # transforms
    p=rs.randint(1,5); bound=[]; th=[]
    for i in range(p):
        t=rs.randint(4); a=rs.uniform(-3,1); b=a+rs.uniform(0.5,4)
        if t==0: bound.append((a,b)); th.append(rs.uniform(a,b))
        if t==1: bound.append((-np.inf,b)); th.append(b-rs.exponential(1)-1e-3)
        if t==2: bound.append((a,np.inf)); th.append(a+rs.exponential(1)+1e-3)
        if t==3: bound.append((-np.inf,np.inf)); th.append(rs.randn()*3)
    bound=np.array(bound); th=np.array(th)
    tt=BSL._para_logit_transform(th,bound); back=BSL._para_logit_back_transform(tt,bound)
    if not np.allclose(back,th,rtol=1e-10,atol=1e-12): viol.append(('roundtrip',bound,th,back))
    h=1e-6; lj=0
    for i in range(p):
        e=np.zeros(p); e[i]=h; lj+=np.log((BSL._para_logit_back_transform(tt+e,bound)[i]-BSL._para_logit_back_transform(tt-e,bound)[i])/(2*h))
    J=BSL._jacobian_logit_transform(tt,bound)
    if not np.isclose(J,lj,rtol=1e-5,atol=1e-6): viol.append(('jacobian',bound.tolist(),J,lj))
print('n',n,'viol',len(viol)); seen=set()
for v in viol:
    if v[0] not in seen: seen.add(v[0]); print(str(v)[:300])
