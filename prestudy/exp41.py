import compat, numpy as np, elfi, warnings, scipy.stats as ss, sys, time
compat.install(); warnings.simplefilter('ignore')
import logging; logging.disable(logging.CRITICAL)
from elfi.methods.bo.gpy_regression import GPyRegression
from elfi.methods.bo.acquisition import LCBSC, MaxVar, RandMaxVar, ExpIntVar, UniformAcquisition
from elfi.methods.posteriors import BolfiPosterior
from elfi.model.extensions import ModelPrior
rs=np.random.RandomState(int(sys.argv[1])); NG=int(sys.argv[2]); t0=time.time()
viol=[]; cnt={'gp':0,'q':0,'acq':0,'skip':0}
def rich(f,x,h=1e-4):
    g=np.zeros(len(x))
    for i in range(len(x)):
        e=np.zeros(len(x)); e[i]=h
        d1=(f(x+e)-f(x-e))/(2*h); d2=(f(x+2*e)-f(x-2*e))/(4*h); g[i]=(4*d1-d2)/3
    return g
for gi in range(NG):
    d=rs.randint(1,4); names=['p%d'%i for i in range(d)]
    lo=rs.uniform(-2,0,d); hi=lo+rs.uniform(1,3,d); bounds={n:(lo[i],hi[i]) for i,n in enumerate(names)}
    m=elfi.ElfiModel(name='m')
    wide=rs.rand()<0.5
    for i,n in enumerate(names):
        if wide: elfi.Prior('norm',(lo[i]+hi[i])/2,(hi[i]-lo[i]),model=m,name=n)
        else: elfi.Prior('uniform',lo[i],hi[i]-lo[i],model=m,name=n)
    prior=ModelPrior(m)
    gp=GPyRegression(names,bounds=bounds)
    N=rs.randint(8,40); X=rs.uniform(lo,hi,(N,d)); opt=rs.uniform(lo,hi) if rs.rand()<0.6 else np.where(rs.rand(d)<0.5,lo,hi)
    Y=(np.sum((X-opt)**2,1)+0.2*rs.randn(N))[:,None]
    try:
        k=rs.randint(1,N); gp.update(X[:k],Y[:k],optimize=True); gp.update(X[k:],Y[k:],optimize=rs.rand()<0.5)
    except np.linalg.LinAlgError: cnt['skip']+=1; continue
    cnt['gp']+=1
    if not (np.array_equal(gp.X,X) and np.array_equal(gp.Y,Y)): viol.append(('evidence order',))
    thr=float(np.percentile(Y,rs.uniform(5,50)))
    post=BolfiPosterior(gp,threshold=thr,prior=prior)
    for qi in range(20):
        kind=rs.choice(['in','out','edge'])
        x=rs.uniform(lo,hi)
        if kind=='out': j=rs.randint(d); x[j]=hi[j]+rs.uniform(1e-9,1) if rs.rand()<0.5 else lo[j]-rs.uniform(1e-9,1)
        if kind=='edge': j=rs.randint(d); x[j]=hi[j] if rs.rand()<0.5 else lo[j]
        gp.is_sampling=False
        mu,v=gp._gp.predict(x[None,:])
        pl=sum(getattr(ss,'norm' if wide else 'uniform')((lo[i]+hi[i])/2 if wide else lo[i], hi[i]-lo[i]).logpdf(x[i]) for i in range(d))
        ref=ss.norm.logcdf((thr-mu.item())/np.sqrt(v.item()))+pl if kind!='out' else -np.inf
        for samp in (False,True):
            gp.is_sampling=samp
            got=post.logpdf(x if d>1 else x)   # 1-D input
            got=np.asarray(got).reshape(-1)[0]
            cnt['q']+=1
            if not (np.isclose(got,ref,rtol=1e-7,atol=1e-9) or (np.isneginf(got) and np.isneginf(ref))): viol.append(('logpdf',kind,samp,d,got,ref))
        # fast vs slow
        if kind!='out':
            gp.is_sampling=False; a=gp.predict(x); ga=gp.predictive_gradients(x)
            gp.is_sampling=True; b=gp.predict(x); gb=gp.predictive_gradients(x)
            if not (np.allclose(a[0],b[0],rtol=1e-7,atol=1e-9) and np.allclose(a[1],b[1],rtol=1e-6,atol=1e-9) and np.allclose(ga[0],gb[0],rtol=1e-6,atol=1e-8) and np.allclose(ga[1],gb[1],rtol=1e-5,atol=1e-8)): viol.append(('fastpath',d,a,b))
        if kind=='in' and np.all(x-lo>1e-2) and np.all(hi-x>1e-2):
            gp.is_sampling=False
            f=lambda z: np.asarray(post.logpdf(z)).reshape(-1)[0]
            g=np.asarray(post.gradient_logpdf(x)).reshape(-1); num=rich(f,x)
            if not np.allclose(g,num,rtol=1e-3,atol=1e-4*(1+np.abs(num).max())): viol.append(('gradient',d,g,num))
    gp.is_sampling=False
    # acquisitions
    for cls,kw in [(LCBSC,dict(noise_var=rs.choice([0,0.1,1.0]))),(LCBSC,dict(noise_var={n:float(rs.choice([0,0.5])) for n in names})),(MaxVar,{}),(RandMaxVar,dict(sampler='metropolis',n_samples=40)),(ExpIntVar,dict(d_grid=0.5)),(UniformAcquisition,{})]:
        if cls is ExpIntVar and d>2: continue
        try:
            acq=cls(gp,prior=prior,seed=int(rs.randint(1000)),**kw); n=rs.randint(1,6)
            pts=acq.acquire(n,t=int(rs.randint(0,5)))
            cnt['acq']+=1
            if pts.shape!=(n,d): viol.append(('acq shape',cls.__name__,pts.shape,(n,d)))
            if not (np.all(pts>=lo)&np.all(pts<=hi)): viol.append(('acq outside',cls.__name__,wide,pts,lo,hi))
            if cls in (LCBSC,MaxVar):
                x=rs.uniform(lo+0.05*(hi-lo),hi-0.05*(hi-lo))
                f=lambda z: np.asarray(acq.evaluate(z,2)).reshape(-1)[0]
                g=np.asarray(acq.evaluate_gradient(x,2)).reshape(-1); num=rich(f,x)
                if not np.allclose(g,num,rtol=1e-3,atol=1e-5*(1+np.abs(num).max())): viol.append(('acq gradient',cls.__name__,wide,g,num))
        except np.linalg.LinAlgError: cnt['skip']+=1
        except Exception as e: viol.append(('EXC',cls.__name__,type(e).__name__,str(e)[:150]))
print(cnt,'viol',len(viol),'t',round(time.time()-t0,1)); seen=set()
for v in viol:
    k=v[:2]
    if k not in seen: seen.add(k); print(str(v)[:500])
