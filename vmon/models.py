"""Inference model family built from plain-data specs (DESIGN.md section 4b).

Everything a model is built from is module-level and picklable (functools.partial over
module-level functions; distribution objects are small classes defined here), so that the
real multiprocessing client can run the same models in worker processes.

The spec is plain data and is the only input of every reference computation.
"""
import functools
import hashlib

import numpy as np
import scipy.stats as ss

# ---------------------------------------------------------------------------------------
# per-process recording log (read for in-process clients only)
LOG = []          # entries: dict(node=…, rs=id, before=digest, after=digest, batch_size=…)
CALLS = {}        # (node) -> number of calls in this process (simulated path only)
RECORD = {'on': False}


def reset_log():
    del LOG[:]
    CALLS.clear()


def rs_digest(rs):
    st = rs.get_state()
    h = hashlib.sha256()
    h.update(st[1].tobytes())
    h.update(repr(st[2:]).encode())
    return h.hexdigest()[:16]


def _log(node, rs, before, batch_size, meta=None):
    if RECORD['on']:
        LOG.append({'node': node, 'rs': id(rs), 'before': before, 'after': rs_digest(rs),
                    'batch_size': batch_size, 'batch_index': None if meta is None else meta.get('batch_index')})


def count(node, key=None):
    CALLS[(node, key)] = CALLS.get((node, key), 0) + 1


# ---------------------------------------------------------------------------------------
# distributions (scipy-like objects: rvs / pdf / logpdf), recording the generator they get
SCIPY = {'uniform': ss.uniform, 'norm': ss.norm, 'expon': ss.expon, 'truncnorm': ss.truncnorm,
         'beta': ss.beta, 'gamma': ss.gamma, 'lognorm': ss.lognorm}


class RecDist:
    """Thin recording wrapper around a scipy distribution (no change of values)."""

    def __init__(self, kind, node):
        self.kind = kind
        self.node = node
        self.name = kind

    def rvs(self, *params, size=1, random_state=None):
        before = rs_digest(random_state) if (RECORD['on'] and random_state is not None) else None
        out = SCIPY[self.kind].rvs(*params, size=size, random_state=random_state)
        count(self.node)
        if random_state is not None:
            _log(self.node, random_state, before, size)
        return out

    def pdf(self, x, *params, **kw):
        return SCIPY[self.kind].pdf(x, *params, **kw)

    def logpdf(self, x, *params, **kw):
        return SCIPY[self.kind].logpdf(x, *params, **kw)


# ---------------------------------------------------------------------------------------
# operations
def sim_op(*theta, batch_size=1, random_state=None, meta=None, width=2, noise=0.4, node='S', coefs=None,
           use_meta=False, delays=None, layout=None):
    if delays and meta is not None:
        import time
        time.sleep(delays[meta['batch_index'] % len(delays)])
    th = np.column_stack([np.broadcast_to(np.asarray(t, dtype=float).reshape(-1), (batch_size,)) for t in theta])
    before = rs_digest(random_state) if RECORD['on'] else None
    coefs = np.asarray(coefs if coefs is not None else np.ones(th.shape[1]))
    out = (th * coefs).sum(1)[:, None] + noise * random_state.randn(batch_size, width)
    count(node)
    if meta is not None:
        count(node, meta.get('batch_index'))
    _log(node, random_state, before, batch_size, meta)
    if layout == 'F':
        out = np.asfortranarray(out)     # same values, column-major memory layout (a simulator that returns x.T)
    return out


def sim_op_meta(*theta, batch_size=1, random_state=None, meta=None, **kw):
    return sim_op(*theta, batch_size=batch_size, random_state=random_state, meta=meta, **kw)


OBS = {'bytes': None}   # bytes of the observed simulator data of the model built last


def _count_summary(node, x):
    x = np.asarray(x)
    count(node, 'obs' if (OBS['bytes'] is not None and x.shape[0] == 1 and x.tobytes() == OBS['bytes']) else None)


def summ_mean(x, node='s1', offset=0.0):
    _count_summary(node, x)
    return x.mean(axis=1) + offset


def summ_head(x, node='s2', k=2, scale=1.0):
    _count_summary(node, x)
    return scale * x[:, :min(k, x.shape[1])]


def summ_absmax(x, node='s3', scale=1.0):
    _count_summary(node, x)
    return scale * np.abs(x).max(axis=1)


SUMMARIES = {'mean': summ_mean, 'head': summ_head, 'absmax': summ_absmax}


def disc_op(*summaries, observed=None, flavour='cont', cut=1.0, levels=3.0, node='d', variant=0):
    count(node)
    n = len(summaries[0])
    d = np.zeros(n)
    for s, o in zip(summaries, observed):
        s2 = np.asarray(s, dtype=float).reshape(n, -1)
        o2 = np.asarray(o, dtype=float).reshape(1, -1)
        d = d + np.abs(s2 - o2).sum(axis=1) * (1.0 if variant == 0 else 0.5 + 0.25 * variant)
    if 'quant' in flavour:
        d = np.floor(d * levels) / levels
    if 'inf' in flavour:
        d = np.where(d > cut, np.inf, d)
    if flavour == 'int':
        d = np.floor(d * levels).astype(np.int64)       # integer-valued discrepancy (exact-count ABC)
    if flavour == 'bool':
        d = d > cut                                      # boolean discrepancy: mismatch yes/no
    return d


# ---------------------------------------------------------------------------------------
# spec generation
def gen_spec(rng, max_params=3, flavours=('cont', 'quant', 'inf', 'quantinf'), hier=True, dists=None):
    """Generate an inference-model spec. rng: numpy Generator."""
    npar = int(rng.integers(1, max_params + 1))
    params = []
    names = ['p%d' % i for i in range(npar)]
    # creation order differs from alphabetical order for C02: permute names
    perm = list(rng.permutation(npar))
    dists = dists or ['uniform', 'norm', 'expon', 'truncnorm']
    for i in range(npar):
        name = names[perm[i]]
        kind = str(rng.choice(dists))
        if params and hier and rng.random() < 0.4:
            par = params[int(rng.integers(len(params)))]
            if par['support_pos']:
                params.append({'name': name, 'dist': 'uniform', 'args': [0.0, {'ref': par['name']}],
                               'support_pos': False, 'hier': True})
            else:
                params.append({'name': name, 'dist': 'norm', 'args': [{'ref': par['name']}, 0.5],
                               'support_pos': False, 'hier': True})
            continue
        if kind == 'uniform':
            lo = float(rng.choice([-1.0, 0.0, 0.5]))
            params.append({'name': name, 'dist': 'uniform', 'args': [lo, float(rng.choice([1.0, 2.0, 3.0]))],
                           'support_pos': lo > 0, 'hier': False})
        elif kind == 'norm':
            params.append({'name': name, 'dist': 'norm', 'args': [float(rng.choice([0.0, 0.5, 1.0])), float(rng.choice([0.5, 1.0, 1.5]))],
                           'support_pos': False, 'hier': False})
        elif kind == 'expon':
            params.append({'name': name, 'dist': 'expon', 'args': [0.2, float(rng.choice([0.5, 1.0]))],
                           'support_pos': True, 'hier': False})
        else:
            params.append({'name': name, 'dist': 'truncnorm', 'args': [-1.0, 2.0, 0.5, 1.0],
                           'support_pos': False, 'hier': False})
    width = int(rng.choice([1, 2, 4]))
    n_summ = int(rng.integers(1, 4))
    kinds = ['mean', 'head', 'absmax']
    summaries = []
    for j in range(n_summ):
        k = kinds[j] if rng.random() < 0.7 else str(rng.choice(kinds))
        summaries.append({'name': 's%d' % (j + 1), 'kind': k})
    flavour = str(rng.choice(list(flavours)))
    spec = {
        'params': params,
        'sim': {'width': width, 'noise': float(rng.choice([0.2, 0.4, 1.0])),
                'coefs': [float(c) for c in rng.choice([0.5, 1.0, -1.0], size=npar)]},
        'summaries': summaries,
        'disc': {'flavour': flavour, 'cut': float(rng.choice([0.8, 1.0, 1.5])), 'levels': float(rng.choice([2.0, 3.0, 5.0]))},
        'obs': [float(x) for x in np.round(rng.normal(0.5, 0.5, size=width), 3)],
    }
    return spec


def build(spec, name='m', order=None, record_dists=True, sim_meta=False, delays=None):
    """Build the ElfiModel of a spec. `order`: creation order of the parameter nodes
    (a permutation that respects references) - for C02 insertion-order variants."""
    import elfi
    m = elfi.ElfiModel(name=name)
    by = {p['name']: p for p in spec['params']}
    made = {}

    def make_param(p):
        if p['name'] in made:
            return
        args = []
        for a in p['args']:
            if isinstance(a, dict):
                make_param(by[a['ref']])
                args.append(made[a['ref']])
            else:
                args.append(a)
        dist = RecDist(p['dist'], p['name']) if record_dists else p['dist']
        made[p['name']] = elfi.Prior(dist, *args, model=m, name=p['name'])

    seq = spec['params'] if order is None else [by[n] for n in order]
    for p in seq:
        make_param(p)
    P = [made[p['name']] for p in spec['params']]
    s = spec['sim']
    fn = functools.partial(sim_op_meta if sim_meta else sim_op, width=s['width'], noise=s['noise'], coefs=s['coefs'], node='S',
                           **({'delays': delays} if delays else {}), **({'layout': s['layout']} if s.get('layout') else {}))
    obs = np.asarray(spec['obs'], dtype=float)[None, :]
    OBS['bytes'] = obs.tobytes()
    S = elfi.Simulator(fn, *P, model=m, name='S', observed=obs)
    if sim_meta:
        S.uses_meta = True
    summs = []
    for sm in spec['summaries']:
        summs.append(elfi.Summary(functools.partial(SUMMARIES[sm['kind']], node=sm['name']), S, model=m, name=sm['name']))
    d = spec['disc']
    elfi.Discrepancy(functools.partial(disc_op, flavour=d['flavour'], cut=d['cut'], levels=d['levels'], node='d'),
                     *summs, model=m, name='d')
    return m


def param_names(spec):
    return sorted(p['name'] for p in spec['params'])


def prior_logpdf(spec, theta):
    """Reference joint log-density of the prior at rows of theta (columns in sorted-name
    order), evaluated directly with scipy from the spec."""
    names = param_names(spec)
    theta = np.atleast_2d(np.asarray(theta, dtype=float))
    col = {n: theta[:, i] for i, n in enumerate(names)}
    total = np.zeros(len(theta))
    for p in spec['params']:
        args = [col[a['ref']] if isinstance(a, dict) else a for a in p['args']]
        with np.errstate(all='ignore'):
            total = total + SCIPY[p['dist']].logpdf(col[p['name']], *args)
    return total
