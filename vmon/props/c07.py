"""C07 - SMC-ABC populations satisfy thresholds, prior support and importance weights.

Reference-model monitor: every population returned by the real SMC sampler is recomputed from
the returned outputs and the harness's own spec of the prior (scipy evaluated directly).
"""
import numpy as np
import scipy.stats as ss

from vmon import models
from vmon.core import Skip, Violation

PROPERTY = 'C07'
LEVEL = 'exploration'
TECHNIQUE = ('runtime monitoring: reference-model monitor over SmcSample.populations (threshold in force, prior support, importance weights, '
             'proposal covariance, simulation counts recomputed independently) + update() counter, over generated models and SMC configurations')
LEVEL_TEXT = ('Held on every generated SMC run: population size, discrepancies vs. the threshold in force (user threshold or weighted quantile of the '
              'previous population, admissible set on cumulative-weight boundaries), positive prior density from the spec, weights = prior / Gaussian-'
              'mixture density recomputed with scipy, cov = 2 x reliability-weights variance, n_sim = sum over rounds = batch_size x consumed batches. '
              'Sampled configurations, not exhaustive.')
LEVEL_NOTE = 'trusts: scipy densities, the spec-driven prior reference (vmon/models.prior_logpdf); native client (schedules are C04)'
RULE = ('cases = inference-model spec (bounded/unbounded/hierarchical/exponential/truncated priors, 1-3 parameters) x threshold list from pilot '
        'quantiles | quantile list x 2-5 rounds x batch size 1-100 x population size 5-200 x optional continued sampling; distinct = hash of the case; '
        'non-trivial = at least 2 populations returned')
ASSUMPTIONS = ['thresholds are chosen from a pilot run so that acceptance is well above 1% (the sampler retries for ever by design)']
CONFIG = {
    'quick': {'shards': 16, 'cases': 4, 'timeout': 900, 'floor': 20},
    'thorough': {'shards': 32, 'cases': 250, 'timeout': 5400, 'floor': 2500},
}
REQUIRED = ['contract_weighted_var', 'contract_rvs', 'contract_logpdf', 'contract_weighted_sample_quantile', 'populations_checked', 'weights_compared', 'cov_compared', 'threshold_user', 'threshold_quantile', 'continued_runs', 'continued_runs_other_form', 'earlier_result_rechecked', 'far_parameter_runs', 'threshold_exactly_zero',
            'prior_hier', 'prior_bounded', 'prior_unbounded', 'n_sim_checked']


def gen_cases(ctx):
    rng = ctx.rng
    made = 0
    while made < ctx.ncases:
        spec = models.gen_spec(rng, flavours=('cont', 'cont', 'quant', 'quant'))
        want_zero = (made == 0)          # every shard drives at least one exact-match (threshold 0) schedule
        flat = [p for p in spec['params'] if not p.get('hier') and not any(isinstance(a, dict) and a.get('ref') == p['name']
                                                                                for q in spec['params'] for a in q['args'])]
        if flat and not want_zero and rng.random() < 0.25:
            # a parameter that lives far from zero relative to its spread (a Julian date, a population in millions)
            p = flat[int(rng.integers(len(flat)))]
            loc = float(rng.choice([2.46e6, -3.1e5, 7.0e7]))
            p.update(dist='norm', args=[loc, float(rng.choice([1.0, 2.0]))], support_pos=False)
            i = [q['name'] for q in spec['params']].index(p['name'])
            spec['obs'] = [float(o + spec['sim']['coefs'][i] * loc) for o in spec['obs']]
            spec['far_parameter'] = p['name']
        if want_zero:
            spec['disc']['flavour'] = 'quant'
            spec['disc']['levels'] = 2.0
        seed = int(rng.integers(0, 2 ** 31 - 1))
        m = models.build(spec, name='pilot')
        d = m.generate(400, outputs=['d'], seed=seed % 1000 + 3)['d']
        fin = np.sort(d[np.isfinite(d)])
        if len(fin) < 200:
            continue

        def q(p):
            return float(fin[int(p * len(fin))])
        R = int(rng.integers(2, 6))
        zero_thr = False
        if want_zero and float(np.mean(fin == 0.0)) < 0.04:
            continue
        if want_zero or rng.random() < 0.5:
            kw = {'thresholds': [q(p) for p in [0.6, 0.4, 0.25, 0.15, 0.1][:R]]}
            if spec['disc']['flavour'] == 'quant' and float(np.mean(fin == 0.0)) >= 0.04 and (want_zero or rng.random() < 0.7):
                # exact-match ABC on a discrete discrepancy: the last threshold is exactly 0
                kw['thresholds'][-1] = 0.0
                zero_thr = True
        else:
            # the sampler retries for ever by design: keep the overall acceptance (product of quantiles) above ~2% and
            # use continuous discrepancies (a weighted quantile of tied values can sit on the lowest level)
            qs = [float(rng.choice([0.3, 0.5, 0.8])) for _ in range(R)]
            while np.prod(qs) < 0.04:
                qs[int(np.argmin(qs))] = 0.8
            kw = {'quantiles': qs}
            spec['disc']['flavour'] = 'cont'
        case = {'spec': spec, 'bar': bool(rng.random() < 0.4), 'bs': int(rng.choice([1, 5, 20, 100])), 'n': int(rng.choice([5, 20, 60, 200])), 'seed': seed, 'kw': kw}
        if case['bs'] == 1 and case['n'] > 60:
            case['n'] = 60
        if rng.random() < 0.4:
            # continued sampling on the same sampler, in the same or in the other objective form
            same = rng.random() < 0.5
            if ('thresholds' in kw) == same:
                case['cont'] = {'thresholds': [0.0 if zero_thr else q(0.07)]}
            else:
                case['cont'] = {'quantiles': [0.5]}
        made += 1
        yield case


def wq_admissible(x, alpha, w):
    idx = np.argsort(x)
    xs, W = x[idx], (w / w.sum())[idx]
    c = np.cumsum(W)
    out = set()
    for i in range(len(xs)):
        lo, hi = c[i] - W[i], c[i]
        if lo < alpha + 1e-12 and alpha <= hi + 1e-12:
            out.add(float(xs[i]))
    return out


def ref_weighted_var(x, w):
    v1, v2 = w.sum(), (w ** 2).sum()
    mu = (w[:, None] * x).sum(0) / v1
    return (w[:, None] * (x - mu) ** 2).sum(0) / (v1 - v2 / v1)


def run_case(ctx, case):
    import elfi
    spec = case['spec']
    names = models.param_names(spec)
    kinds = {p['dist'] for p in spec['params']}
    if any(p.get('hier') for p in spec['params']):
        ctx.event('prior_hier')
    if kinds & {'uniform', 'truncnorm', 'expon'}:
        ctx.event('prior_bounded')
    if 'norm' in kinds:
        ctx.event('prior_unbounded')
    ctx.event('far_parameter_runs', bool(spec.get('far_parameter')))
    m = models.build(spec)
    bs, N = case['bs'], case['n']
    smc = elfi.SMC(m['d'], batch_size=bs, seed=case['seed'])
    consumed = [0]
    upd = smc.update

    def counting_update(batch, batch_index):
        consumed[0] += 1
        return upd(batch, batch_index)
    smc.update = counting_update
    kw = case['kw']
    # the C13 contracts (weighted quantile / variance / mixture density / constrained sampler) stay attached to the real
    # functions while the sampler uses them internally
    from vmon import contracts
    from vmon.props import c13
    with contracts.attached(ctx, *c13.specs(ctx)):
        res = smc.sample(N, bar=bool(case.get('bar')), **kw)
        first_thr = float(res.populations[-1].threshold)
        first_res, first_n_pops, first_n_sim = res, len(res.populations), res.n_sim
        first_last = {k_: np.array(v_, copy=True) for k_, v_ in res.populations[-1].outputs.items()}
        per_round = [('t', v) for v in kw.get('thresholds', [])] + [('q', v) for v in kw.get('quantiles', [])]
        if 'cont' in case:
            cont = dict(case['cont'])
            if 'thresholds' in cont and 'quantiles' in kw:
                # a user threshold for the continuation must be reachable from the last population: a fraction of its threshold
                cont = {'thresholds': [0.8 * first_thr]}
                ctx.event('continued_runs_other_form')
            elif 'quantiles' in cont and 'thresholds' in kw:
                ctx.event('continued_runs_other_form')
            res = smc.sample(N, bar=bool(case.get('bar')), **cont)
            per_round += [('t', v) for v in cont.get('thresholds', [])] + [('q', v) for v in cont.get('quantiles', [])]
            ctx.event('continued_runs')
            # the SmcSample returned by the first call must still describe the first estimation
            if len(first_res.populations) != first_n_pops or first_res.n_sim != first_n_sim or \
                    any(not np.array_equal(first_res.populations[-1].outputs[k_], v_) for k_, v_ in first_last.items()):
                raise Violation('earlier-result-changed', 'the SmcSample returned by the first sample() call changed when the same sampler continued: '
                                '%d populations (were %d), n_sim %s (was %s)' % (len(first_res.populations), first_n_pops, first_res.n_sim, first_n_sim))
            ctx.event('earlier_result_rechecked')
    pops = res.populations
    nr = len(per_round)
    mode = 'mixed'
    if len(pops) != nr:
        raise Violation('n-populations', '%d populations returned for %d rounds' % (len(pops), nr))
    ctx.event('n_sim_checked')
    if res.n_sim != sum(p.n_sim for p in pops) or res.n_sim != bs * consumed[0]:
        raise Violation('n_sim', 'SmcSample.n_sim=%s, sum over populations=%s, batch_size x consumed batches=%s' % (
            res.n_sim, sum(p.n_sim for p in pops), bs * consumed[0]))
    prev = None
    for r, p in enumerate(pops):
        th = np.column_stack([p.outputs[k] for k in names])
        dsc = np.asarray(p.outputs['d'])
        ctx.event('populations_checked')
        if len(dsc) != N or len(th) != N or len(p.weights) != N:
            raise Violation('population-size', 'round %d: %d particles, n_samples=%d' % (r, len(dsc), N))
        form, val = per_round[r]
        if form == 't':
            ctx.event('threshold_user')
            ctx.event('threshold_exactly_zero', val == 0.0)
            if not np.all(dsc <= val):
                raise Violation('above-threshold', 'round %d: max discrepancy %r above the user threshold %r' % (r, dsc.max(), val))
        elif r > 0:
            ctx.event('threshold_quantile')
            adm = wq_admissible(prev['d'], val, prev['w'])
            if not adm or not np.all(dsc <= max(adm)):
                raise Violation('above-quantile-threshold', 'round %d: max discrepancy %r above the weighted %.2f-quantile of the previous population %s' % (
                    r, dsc.max(), val, sorted(adm)))
        lp = models.prior_logpdf(spec, th)
        if not np.all(np.isfinite(lp)):
            raise Violation('zero-prior-particle', 'round %d: particle with zero prior density' % r, {'theta': th[~np.isfinite(lp)][:3]})
        if r == 0:
            wref = np.ones(N)
        else:
            W = prev['w'] / prev['w'].sum()
            qd = np.zeros(N)
            for mu, wj in zip(prev['th'], W):
                if wj > 0:
                    qd += wj * ss.multivariate_normal.pdf(th, mu, prev['cov'], allow_singular=False).reshape(-1)
            with np.errstate(all='ignore'):
                wref = np.exp(lp) / qd
        ctx.event('weights_compared', N)
        if not np.allclose(p.weights, wref, rtol=1e-8, atol=0):
            bad = int(np.argmax(np.abs(np.asarray(p.weights) / wref - 1)))
            raise Violation('weights', 'round %d: weight of particle %d is %r, prior/mixture density gives %r' % (r, bad, p.weights[bad], wref[bad]),
                            {'round': r, 'theta': th[bad]})
        w = np.asarray(p.weights, dtype=float)
        cov = 2 * np.diag(ref_weighted_var(th, w))
        ctx.event('cov_compared')
        if not np.all(np.isfinite(cov)):
            raise Skip('degenerate covariance')
        # two correct two-pass evaluations differ by about eps * |mean| / sd in each deviation when a parameter lives far from zero
        with np.errstate(all='ignore'):
            far = float(np.max(np.abs(th.mean(0)) / np.maximum(th.std(0), 1e-300)))
        if np.shape(p.cov) != cov.shape or not np.allclose(p.cov, cov, rtol=1e-9 + 20 * np.finfo(float).eps * far):
            raise Violation('cov', 'round %d: population covariance is not twice the weighted sample variance' % r, {'got': p.cov, 'expected': cov})
        prev = {'th': th, 'w': w, 'd': dsc, 'cov': np.asarray(p.cov)}
    ctx.nontrivial(len(pops) >= 2)
    ctx.distinct('config', '%s|r%d|bs%d|n%d' % (''.join(f for f, _v in per_round), nr, bs, N))
