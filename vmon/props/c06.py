"""C06 - On-disk array stores keep exactly what was written, across reopen and crash.

Monitor A: random operation histories over NpyArray / NpyStore / ArrayPool compared, after
every operation, with an in-memory list-of-batches model; after every flush/close the file is
loaded with plain numpy.load.
Monitor B (fault enumeration): for each history EVERY kill point (before|after the k-th
low-level write/truncate/flush/close on a .npy file, k after the first completed flush) is
executed in a forked child that os._exit()s there; the parent loads what was left behind and
requires it to be the logical content at some instant between the last completed flush and
the kill.
"""
import builtins
import os
import pickle
import shutil
import signal
import tempfile

import numpy as np

from vmon.core import Violation

PROPERTY = 'C06'
LEVEL = 'fault_enumeration'
TECHNIQUE = ('runtime monitoring with fault injection: list-of-batches reference model after every store operation + exhaustive kill-point '
             'enumeration (os._exit before/after every low-level file operation) per generated history, offline admissible-state checker')
LEVEL_TEXT = ('For every generated history all kill points after the first flush are enumerated (exhaustive per history; histories are '
              'sampled): the real store code runs in a forked child that dies at the chosen file operation, exactly as with SIGKILL '
              '(user-space buffers lost, shared-mmap writes kept); the file left behind must load with numpy.load to a batch-aligned content '
              'that existed between the last completed flush and the kill. Without crash every operation is compared with a list model.')
LEVEL_NOTE = ('fault model = process kill before/after each write/truncate/flush/close call on the .npy file (tearing inside one system call or '
              'memory copy, and power loss, are outside the stated fault model); trusts numpy.load as the definition of "standard .npy file"')
RULE = ('cases = random history (first op append; 5-14 ops of append / overwrite / delete-last / clear / read / flush / close+reopen / '
        'pickle+unpickle / pool save+open / persist-now-restore-later (the writer went away without saving again) / hostile motif unflushed-append+read+overwrite) over NpyArray | NpyStore | ArrayPool x dtype {f8,f4,i8,i4,i1,u1,bool,c16} x row shape {(),(k,),(k,l)} x '
        'batch size 1-5, plus all its kill points; distinct = hash of the history; non-trivial = history with an overwrite or delete after a '
        'flush and at least one kill point after the first flush')
ASSUMPTIONS = ['children are forked from the worker and re-run the whole history in a fresh directory up to the kill point',
               'elfi.store.open is a module-global lookup; it is replaced by a counting/killing proxy for .npy files (no source change)']
EXHAUSTIVE_NOTE = 'kill points of each generated history are enumerated completely; the set of histories is sampled'
CONFIG = {
    'quick': {'shards': 16, 'cases': 20, 'timeout': 600, 'floor': 80},
    'thorough': {'shards': 32, 'cases': 360, 'timeout': 5400, 'floor': 3000},
}
REQUIRED = ['histories_with_column_major_batches', 'op_snapshot', 'op_restore', 'op_read', 'kill_points_executed', 'kill_states_loaded', 'model_comparisons', 'npload_checks', 'kind_array', 'kind_store', 'kind_pool',
            'op_append', 'op_overwrite', 'op_delete', 'op_flush', 'op_reopen', 'op_pickle', 'kills_during_truncate', 'kills_during_write']

DTYPES = ['<f8', '<f4', '<i8', '<i4', '|i1', '|u1', '|b1', '<c16']
ROWS = [[], [2], [3], [2, 2], [1, 3]]
FLUSHING = ('flush', 'reopen', 'pickle', 'save', 'close', 'snapshot', 'restore')


# ------------------------------------------------------------------ file proxy / kill injector
class _Ctl:
    count = 0
    kill_at = None
    kinds = []


CTL = _Ctl()


class _FP:
    def __init__(self, f):
        object.__setattr__(self, '_f', f)

    def __getattr__(self, n):
        a = getattr(self._f, n)
        if n in ('write', 'truncate', 'flush', 'close'):
            def w(*args, **kw):
                CTL.count += 1
                k = CTL.count
                CTL.kinds.append(n)
                if CTL.kill_at == (k, 'before'):
                    os._exit(77)
                r = a(*args, **kw)
                if CTL.kill_at == (k, 'after'):
                    os._exit(77)
                return r
            return w
        return a

    def __setattr__(self, n, v):
        setattr(self._f, n, v)

    def __enter__(self):
        return self

    def __exit__(self, *a):
        return self._f.__exit__(*a)


def _popen(name, mode='r', *a, **k):
    f = builtins.open(name, mode, *a, **k)
    return _FP(f) if str(name).endswith('.npy') else f


def _install():
    import elfi.store as st
    if getattr(st, 'open', None) is not _popen:
        st.open = _popen
    return st


# ------------------------------------------------------------------ histories
def gen_history(rng):
    kind = str(rng.choice(['array', 'store', 'store', 'pool']))
    h = {'kind': kind, 'dtype': str(rng.choice(DTYPES)), 'row': [int(x) for x in ROWS[int(rng.integers(len(ROWS)))]],
         'bs': int(rng.integers(1, 6)), 'ops': []}
    h['forder'] = bool(rng.random() < 0.3)
    n = int(rng.integers(5, 15))
    st = {'nb': 0, 'phys': 0, 'flushed': False, 'snap': None, 'min_since_snap': 0}
    ops = h['ops']
    use_restore = kind in ('store', 'pool') and rng.random() < 0.3

    def emit(op):
        seed = int(rng.integers(0, 10 ** 6))
        nb = st['nb']
        if op == 'append':
            ops.append(['append', nb, seed])
            st['nb'] += 1
            st['phys'] = max(st['phys'], st['nb'])
        elif op == 'overwrite' and nb > 0:
            ops.append(['overwrite', int(rng.integers(nb)), seed])
        elif op == 'read' and nb > 0:
            ops.append(['read', int(rng.integers(nb))])
        elif op == 'delete' and nb > 0:
            ops.append(['delete', nb - 1])
            st['nb'] -= 1
            st['phys'] = st['nb']
        elif op == 'clear' and nb > 0:
            ops.append(['clear'])
            st['nb'] = 0
            st['phys'] = 0
        elif op == 'snapshot':
            ops.append(['snapshot'])
            st['snap'] = st['nb']
            st['min_since_snap'] = st['nb']
            st['flushed'] = True
        elif op == 'restore':
            ops.append(['restore'])
            st['nb'] = st['snap']
        elif op in ('flush', 'reopen', 'pickle', 'save'):
            ops.append([op])
            st['flushed'] = True
            if op == 'reopen' and kind != 'pool':
                st['nb'] = st['phys']         # a freshly constructed store exposes the whole file
        if st['snap'] is not None:
            st['min_since_snap'] = min(st['min_since_snap'], st['nb'])

    i = 0
    while i < n:
        nb = st['nb']
        if i == 0:
            emit('append')
        elif i == 2 and not st['flushed']:
            emit('flush')
        elif use_restore and i == 3 and nb > 0:
            # the writer persists its store, writes on, flushes and goes away without saving again; work continues from the persisted object
            emit('snapshot')
            for _k in range(int(rng.integers(1, 3))):
                emit('append')
            if rng.random() < 0.5:
                emit('overwrite')
            emit('flush')
            emit('restore')
            emit('append')
            i += 3
        elif st['flushed'] and nb > 0 and rng.random() < 0.2:
            # hostile motif: unflushed append, a read (re-creates the memory map), in-place overwrite of an older batch
            emit('append')
            emit('read')
            emit('overwrite')
            i += 2
        else:
            choices = ['append'] * 3 + (['overwrite', 'delete'] * 2 + ['read'] * 2 if nb > 0 else []) + ['flush'] * 2 + ['reopen', 'pickle'] \
                + (['clear'] if nb > 0 and rng.random() < 0.3 else []) + (['save'] if kind == 'pool' else [])
            if use_restore and nb > 0 and st['snap'] is None:
                choices += ['snapshot'] * 3
            if use_restore and st['snap'] is not None and st['min_since_snap'] >= st['snap'] and st['nb'] > st['snap']:
                choices += ['restore'] * 4
            emit(str(rng.choice(choices)))
        i += 1
    ops.append(['close'])
    return h


def gen_cases(ctx):
    for _ in range(ctx.ncases):
        yield gen_history(ctx.rng)


def mkbatch(h, seed, node=0):
    r = np.random.RandomState(seed + 7919 * node)
    shape = (h['bs'],) + tuple(h['row'])
    dt = np.dtype(h['dtype'])
    if dt.kind == 'b':
        b = r.rand(*shape) > 0.5
    elif dt.kind == 'c':
        b = (r.randn(*shape) + 1j * r.randn(*shape)).astype(dt)
    elif dt.kind in 'iu':
        b = r.randint(0, 100, size=shape).astype(dt)
    else:
        b = r.randn(*shape).astype(dt)
    if h.get('forder') and b.ndim >= 2:
        b = np.asfortranarray(b)          # same values, column-major memory layout (e.g. a simulator returning x.T)
    return b


NODES = ['a', 'b']


class Driver:
    """Applies a history to the real store objects (one of three kinds) in directory d."""

    def __init__(self, h, d):
        self.st = _install()
        self.h, self.d = h, d
        self.kind = h['kind']
        if self.kind == 'array':
            self.obj = self.st.NpyArray(os.path.join(d, 's'))
        elif self.kind == 'store':
            self.obj = self.st.NpyStore(os.path.join(d, 's'), h['bs'])
        else:
            from elfi.model.elfi_model import ComputationContext
            self.obj = self.st.ArrayPool(NODES, name='p', prefix=d)
            self.obj.set_context(ComputationContext(batch_size=h['bs'], seed=123))
        # originals of pickle round trips: in half of the histories they stay alive (as in a process that hands a copy of its
        # store to someone else) and are closed only at the very end, after the copy has written on and closed
        self.stale = []
        self.keep_originals = bool(h['bs'] % 2)

    def files(self):
        if self.kind == 'pool':
            return {n: os.path.join(self.d, 'p', n + '.npy') for n in NODES}
        return {0: os.path.join(self.d, 's.npy')}

    def apply(self, op):
        h, bs, k = self.h, self.h['bs'], op[0]
        o = self.obj
        if k == 'snapshot':
            # persist the store object now (pickle / pool.save), keep the bytes for a later restore
            if self.kind == 'pool':
                o.save()
                self.snap = {n: open(os.path.join(self.d, 'p', n + '.pkl'), 'rb').read() for n in NODES}
            else:
                self.snap = pickle.dumps(o)
            return
        if k == 'restore':
            # the writer went away without saving again: continue from the object persisted earlier
            o.flush()
            if self.kind == 'pool':
                cwd = os.getcwd()
                os.chdir(os.path.join(self.d, 'p'))
                try:
                    for n in NODES:
                        o.stores[n].close()
                        o.stores[n] = pickle.loads(self.snap[n])
                finally:
                    os.chdir(cwd)
            else:
                o.close()
                self.obj = pickle.loads(self.snap)
            return
        if self.kind == 'array':
            if k == 'append':
                o.append(mkbatch(h, op[2]))
            elif k == 'overwrite':
                o[op[1] * bs:(op[1] + 1) * bs] = mkbatch(h, op[2])
            elif k == 'read':
                np.array(o[op[1] * bs:(op[1] + 1) * bs])
            elif k == 'delete':
                o.truncate(op[1] * bs)
            elif k == 'clear':
                o.clear()
            elif k == 'flush':
                o.flush()
            elif k == 'reopen':
                o.close()
                self.obj = self.st.NpyArray(os.path.join(self.d, 's'))
            elif k == 'pickle':
                self.obj = pickle.loads(pickle.dumps(o))
                if self.keep_originals:
                    self.stale.append(o)
            elif k == 'close':
                o.close()
                for old in self.stale:
                    old.close()
                del self.stale[:]
        elif self.kind == 'store':
            if k == 'append':
                o[op[1]] = mkbatch(h, op[2])
            elif k == 'overwrite':
                o[op[1]] = mkbatch(h, op[2])
            elif k == 'read':
                np.array(o[op[1]])
            elif k == 'delete':
                del o[op[1]]
            elif k == 'clear':
                o.clear()
            elif k == 'flush':
                o.flush()
            elif k == 'reopen':
                o.close()
                self.obj = self.st.NpyStore(os.path.join(self.d, 's'), bs)
            elif k == 'pickle':
                self.obj = pickle.loads(pickle.dumps(o))
                if self.keep_originals:
                    self.stale.append(o)
            elif k == 'close':
                o.close()
                for old in self.stale:
                    old.close()
                del self.stale[:]
        else:
            if k == 'append':
                o.add_batch({n: mkbatch(h, op[2], i) for i, n in enumerate(NODES)}, op[1])
            elif k == 'overwrite':
                for i, n in enumerate(NODES):
                    o.get_store(n)[op[1]] = mkbatch(h, op[2], i)
            elif k == 'read':
                {n: np.array(v) for n, v in o.get_batch(op[1]).items()}
            elif k == 'delete':
                o.remove_batch(op[1])
            elif k == 'clear':
                o.clear()
            elif k == 'flush':
                o.flush()
            elif k == 'save':
                o.save()
            elif k == 'reopen':
                o.close()
                self.obj = self.st.ArrayPool.open('p', prefix=self.d)
            elif k == 'pickle':
                # a pool is persisted by save(); its stores are pickled one by one
                for n in NODES:
                    if self.keep_originals and o.stores[n] is not None:
                        self.stale.append(o.stores[n])
                    o.stores[n] = pickle.loads(pickle.dumps(o.stores[n]))
            elif k == 'close':
                o.close()
                for old in self.stale:
                    old.close()
                del self.stale[:]

    # -- views for monitor A
    def n_batches(self, node):
        if self.kind == 'array':
            return len(self.obj) // self.h['bs'], len(self.obj) % self.h['bs']
        if self.kind == 'store':
            return len(self.obj), 0
        s = self.obj.stores[NODES[node]]
        return (0 if s is None else len(s)), 0

    def get(self, node, j):
        bs = self.h['bs']
        if self.kind == 'array':
            return np.array(self.obj[j * bs:(j + 1) * bs])
        if self.kind == 'store':
            return np.array(self.obj[j])
        return np.array(self.obj.get_store(NODES[node])[j])

    def contains(self, node, j):
        if self.kind == 'array':
            return j * self.h['bs'] < len(self.obj)
        if self.kind == 'store':
            return j in self.obj
        s = self.obj.stores[NODES[node]]
        return s is not None and j in s


class Model:
    """Reference: the batches physically in the file (`phys`) and how many of them the store object exposes (`nb`).
    They differ only after a store object persisted earlier was restored over a file that had grown meanwhile."""

    def __init__(self, kind):
        self.kind = kind
        self.phys = []
        self.nb = 0
        self.snap_nb = None

    def view(self):
        return self.phys[:self.nb]

    def apply(self, h, op, node):
        k = op[0]
        if k == 'append':
            b = mkbatch(h, op[2], node)
            if self.nb < len(self.phys):
                self.phys[self.nb] = b          # the store overwrites the rows behind its end in place
            else:
                self.phys.append(b)
            self.nb += 1
        elif k == 'overwrite':
            self.phys[op[1]] = mkbatch(h, op[2], node)
        elif k == 'delete':
            self.nb -= 1
            del self.phys[self.nb:]             # the file is truncated at the deleted batch
        elif k == 'clear':
            self.phys, self.nb = [], 0
        elif k == 'snapshot':
            self.snap_nb = self.nb
        elif k == 'restore':
            self.nb = self.snap_nb
        elif k == 'reopen' and self.kind != 'pool':
            self.nb = len(self.phys)            # a freshly constructed store exposes the whole file


def _concat(h, batches):
    if batches:
        return np.concatenate(batches)
    return np.zeros((0,) + tuple(h['row']), dtype=h['dtype'])


def _same(a, b):
    return a.dtype == b.dtype and a.shape == b.shape and a.tobytes() == b.tobytes()


def counting_run(ctx, h, d):
    """Monitor A. Returns log = per op (count_after, {node: content bytes-array}, is_flush) and K."""
    CTL.count, CTL.kill_at, CTL.kinds = 0, None, []
    drv = Driver(h, d)
    nodes = list(range(len(NODES))) if h['kind'] == 'pool' else [0]
    models_ = {i: Model(h['kind']) for i in nodes}
    log = []
    for oi, op in enumerate(h['ops']):
        begin = CTL.count
        drv.apply(op)
        for i in nodes:
            models_[i].apply(h, op, i)
        model = {i: models_[i].view() for i in nodes}
        ctx.event('op_' + op[0])
        log.append({'begin': begin, 'end': CTL.count, 'content': {i: _concat(h, models_[i].phys) for i in nodes}, 'flush': op[0] in FLUSHING,
                    'nb': {i: len(model[i]) for i in nodes}})
        if op[0] == 'close':
            break
        where = 'after op %d %s' % (oi, op)
        for i in nodes:
            nb, rem = drv.n_batches(i)
            if nb != len(model[i]) or rem:
                raise Violation('len', '%s: store reports %d batches (+%d rows), model has %d' % (where, nb, rem, len(model[i])), {'history': h})
            for j, mb in enumerate(model[i]):
                if not drv.contains(i, j):
                    raise Violation('membership', '%s: batch %d not reported as contained' % (where, j), {'history': h})
                g = drv.get(i, j)
                ctx.event('model_comparisons')
                if not _same(g, mb):
                    raise Violation('content', '%s: store[%d] differs from the in-memory model' % (where, j),
                                    {'got': g, 'expected': mb})
            if drv.contains(i, len(model[i])):
                raise Violation('membership', '%s: batch %d reported as contained but was never written / was deleted' % (where, len(model[i])))
        if op[0] in FLUSHING:
            for i, f in drv.files().items():
                idx = i if h['kind'] != 'pool' else NODES.index(i)
                try:
                    L = np.load(f)
                except Exception as e:
                    raise Violation('npload', '%s: numpy.load fails after %s: %s' % (where, op[0], e))
                ctx.event('npload_checks')
                exp = _concat(h, models_[idx].phys)
                if not _same(L, exp):
                    raise Violation('npload-content', '%s: numpy.load(file) differs from the concatenated batches after %s' % (where, op[0]),
                                    {'loaded_shape': L.shape, 'expected_shape': exp.shape})
    # final close check
    for i, f in drv.files().items():
        idx = i if h['kind'] != 'pool' else NODES.index(i)
        L = np.load(f)
        ctx.event('npload_checks')
        if not _same(L, _concat(h, models_[idx].phys)):
            raise Violation('npload-content', 'after close: numpy.load(file) differs from the concatenated batches')
    return log, CTL.count, list(CTL.kinds)


def kill_run(h, d, k, phase):
    """Run in the forked child."""
    CTL.count, CTL.kill_at, CTL.kinds = 0, (k, phase), []
    drv = Driver(h, d)
    for op in h['ops']:
        drv.apply(op)


def run_case(ctx, h):
    ctx.event('kind_' + h['kind'])
    ctx.event('histories_with_column_major_batches', bool(h.get('forder')) and len(h['row']) >= 1 and h['bs'] > 1)
    base = tempfile.mkdtemp(prefix='c06-')
    try:
        d0 = os.path.join(base, 'count')
        os.makedirs(d0)
        log, K, kinds = counting_run(ctx, h, d0)
        first_flush = next((e for e in log if e['flush']), None)
        if first_flush is None:
            return
        nodes = list(log[0]['content'])
        opnames = [op[0] for op in h['ops']]
        mutate_after_flush = any(opnames[i] in ('overwrite', 'delete', 'clear') and any(e['flush'] for e in log[:i]) for i in range(len(log)))
        npoints = 0
        for k in range(first_flush['end'] + 1, K + 1):
            for phase in ('before', 'after'):
                d = os.path.join(base, 'k%d%s' % (k, phase[0]))
                os.makedirs(d)
                pid = os.fork()
                if pid == 0:
                    code = 3
                    try:
                        kill_run(h, d, k, phase)
                        code = 0
                    finally:
                        os._exit(code)
                _, status = os.waitpid(pid, 0)
                npoints += 1
                ctx.event('kill_points_executed')
                ctx.event('kills_during_' + kinds[k - 1])
                inprog = next(i for i, e in enumerate(log) if e['end'] >= k)
                lastflush = max(i for i, e in enumerate(log) if e['flush'] and e['end'] < k)
                wit = {'kill_point': [k, phase], 'low_level_op': kinds[k - 1], 'op_in_progress': h['ops'][inprog],
                       'ops_since_last_flush': h['ops'][lastflush + 1:inprog + 1]}
                if os.WIFSIGNALED(status):
                    raise Violation('child-signal', 'child died by signal %d (%s) while running the history' % (
                        os.WTERMSIG(status), signal.Signals(os.WTERMSIG(status)).name), wit)
                if os.WEXITSTATUS(status) not in (0, 77):
                    raise Violation('child-crash', 'store code raised in the child before reaching the kill point', wit)
                files = ({NODES.index(n): f for n, f in ((n, os.path.join(d, 'p', n + '.npy')) for n in NODES)}
                         if h['kind'] == 'pool' else {0: os.path.join(d, 's.npy')})
                for i in nodes:
                    adm = [log[j]['content'][i] for j in range(lastflush, inprog + 1)]
                    try:
                        L = np.load(files[i])
                    except Exception as e:
                        raise Violation('unloadable-after-kill', 'file does not load after a kill at %s low-level op %d (%s) during %s: %s' % (
                            phase, k, kinds[k - 1], h['ops'][inprog], str(e)[:200]), wit)
                    ctx.event('kill_states_loaded')
                    if not any(_same(L, a) for a in adm):
                        raise Violation('inadmissible-state-after-kill',
                                        'file content after the kill is not the logical content at any instant between the last completed flush and the kill '
                                        '(loaded %d rows; admissible row counts %s)' % (len(L), [len(a) for a in adm]), wit)
                shutil.rmtree(d, ignore_errors=True)
        ctx.distinct('kill_point_kind', '%s|%s' % (h['kind'], '|'.join(sorted(set(kinds)))))
        ctx.nontrivial(mutate_after_flush and npoints > 0)
    finally:
        shutil.rmtree(base, ignore_errors=True)


def EXHAUSTIVE(tier):
    return False
