import compat, numpy as np, elfi, warnings, random, sys, math, tempfile, os, shutil
warnings.simplefilter('ignore')
import logging; logging.disable(logging.CRITICAL)
CALLS={}
def cnt(n): CALLS[n]=CALLS.get(n,0)+1
def sim(a,b,batch_size=1,random_state=None): cnt('S'); return np.column_stack([a,b])+random_state.randn(batch_size,2)
OBS=np.array([[1.,0.5]])
def s1f(x): cnt('s1' if x is not OBS else 's1_obs'); return x[:,0]
def s2f(x): cnt('s2' if x is not OBS else 's2_obs'); return x[:,1]*2
def s2g(x): cnt('s2' if x is not OBS else 's2_obs'); return x[:,1]**2
def s3f(x): cnt('s3' if x is not OBS else 's3_obs'); return x.sum(1)
def mk(version):
    m=elfi.ElfiModel(name='m')
    a=elfi.Prior('uniform',0,2,model=m,name='a'); b=elfi.Prior('norm',a,1,model=m,name='b')
    S=elfi.Simulator(sim,a,b,model=m,name='S',observed=OBS)
    s1=elfi.Summary(s1f,S,model=m,name='s1'); s2=elfi.Summary(s2g if version.get('s2g') else s2f,S,model=m,name='s2')
    par=[s1,s2]
    if version.get('s3'): par.append(elfi.Summary(s3f,S,model=m,name='s3'))
    d=elfi.Distance(version.get('metric','euclidean'),*par,model=m,name='d')
    return m
STOCH=['a','b','S']; ORDER=['a','b','S','s1','s2','s3','d']
def run(version, bs, seed, pool, n, n_sim, outn):
    m=mk(version); CALLS.clear()
    rej=elfi.Rejection(m['d'],batch_size=bs,seed=seed,pool=pool,output_names=list(outn),max_parallel_batches=1)
    hist=[]; upd=rej.update
    def u(batch,idx): hist.append(idx); return upd(batch,idx)
    rej.update=u
    r=rej.sample(n,n_sim=n_sim,bar=False)
    return r, dict(CALLS), hist
def same(a,b): return all(np.array_equal(a.outputs[k],b.outputs[k]) for k in a.outputs) and a.threshold==b.threshold and a.n_sim==b.n_sim
rng=random.Random(int(sys.argv[1])); N=int(sys.argv[2]); stats={'steps':0,'reuse_steps':0,'known':0,'viol':0}; viol=[]
for it in range(N):
    bs=rng.choice([2,5,10]); seed=rng.randint(0,10**6)
    desc=rng.sample(['S','s1','s2','d'], rng.randint(1,4)); stores=desc+(['a','b'] if rng.random()<0.4 else [])
    disk = rng.random()<0.3
    tmp=tempfile.mkdtemp(); cwd=os.getcwd(); os.chdir(tmp)
    pool = elfi.ArrayPool(stores, name='p') if disk else elfi.OutputPool(stores)
    version={}; held={s:set() for s in stores}; steps_log=[]
    try:
      for step in range(rng.randint(2,6)):
        act = rng.choice(['same','more','rmstore','become_s2','metric','add_s3','reopen'])
        if act=='rmstore' and len(pool.stores)>1:
            x=rng.choice(list(pool.stores)); pool.remove_store(x); held.pop(x,None)
        stale=[]
        if act=='become_s2' and not version.get('s2g'): version['s2g']=True; stale=['s2','d']
        if act=='metric' and 'metric' not in version: version['metric']='cityblock'; stale=['d']
        if act=='add_s3' and not version.get('s3'): version['s3']=True; stale=['d']
        for x in stale:
            if x in pool.stores: pool.remove_store(x); held.pop(x,None)
        if act=='reopen' and disk and pool.has_context: pool.close(); pool=elfi.ArrayPool.open('p')
        n=rng.choice([3,7]); n_sim=rng.choice([bs*2, bs*3+1, bs*6]); outn=rng.sample(['s1','s2'],rng.randint(0,2))
        steps_log.append((act, n, n_sim, tuple(outn), dict(version), sorted(pool.stores)))
        ref,_,_ = run(version,bs,seed,None,n,n_sim,outn)
        got,calls,hist = run(version,bs,seed,pool,n,n_sim,outn)
        stats['steps']+=1
        B=len(hist)
        # stale stores: after model edits, stored descendants of the edited node are stale by design? statement: "also after downstream summary or distance nodes were changed" -> user must drop stale stores; we drop them here
        problems=[]
        if not same(ref,got): problems.append('result')
        for x in list(pool.stores):
            h=held.get(x,set()); expected_calls = len([i for i in range(B) if i not in h])
            if x in ('S','s1','s2') and calls.get(x,0)!=expected_calls: problems.append(('calls',x,calls.get(x,0),expected_calls))
        if any(held.get(x) for x in pool.stores): stats['reuse_steps']+=1
        # classifier: some stochastic node executed in a batch where an earlier stochastic node was pool-loaded
        known=False
        for i in range(B):
            loaded=[x for x in STOCH if x in pool.stores and i in held.get(x,set())]
            executed=[x for x in STOCH if not (x in pool.stores and i in held.get(x,set()))]
            # S executes only if needed: needed if some requested descendant not loaded... approximate: S executed if calls counted
            if loaded and 'S' not in loaded and calls.get('S',0)>0 and any(ORDER.index(l)<ORDER.index('S') for l in loaded): known=True
        if problems:
            if known: stats['known']+=1
            else: stats['viol']+=1; viol.append((dict(bs=bs,seed=seed,stores=stores,disk=disk,steps=list(steps_log)), sorted(pool.stores), {k:sorted(v) for k,v in held.items()}, dict(version), act, B, dict(calls), problems[:3]))
        for x in pool.stores:
            held.setdefault(x,set()).update(range(B))
        # stale handling: if version changed s2/metric/s3 after stores filled, drop stale stores as a user must
        if act in ('become_s2',) :
            for x in ('s2','d'):
                if x in pool.stores and act=='become_s2': pass
    finally:
        os.chdir(cwd); 
        try: pool.delete() if disk else None
        except Exception: pass
        shutil.rmtree(tmp, ignore_errors=True)
print(stats)
for v in viol[:8]: print('VIOL', v)
