import compat, numpy as np, elfi, warnings, itertools, sys, random
compat.install(); warnings.simplefilter('ignore')
import logging; logging.disable(logging.CRITICAL)
import elfi.client, elfi.clients.native as nat
class Viol(Exception): pass
class SchedClient(elfi.client.ClientBase):
    def __init__(self, seed, cores, regime, mpb):
        self.rs=np.random.RandomState(seed); self.tasks={}; self.done={}; self.readyset=set(); self._ids=itertools.count(); self.cores=cores
        self.ev=[]; self.removed=set(); self.gotten=set(); self.regime=regime; self.mpb=mpb; self.submitted=[]
    def _exec(self,i):
        k,a,kw=self.tasks[i]; self.done[i]=k(*a,**kw); self.ev.append(('x',i))
    def _maybe_run(self):
        pend=[i for i in self.tasks if i not in self.done]
        if self.regime=='lazy': return
        if self.regime=='eager': order=pend; p=1.0
        elif self.regime=='newest': order=pend[::-1]; p=0.7
        else: order=list(pend); self.rs.shuffle(order); p=0.4
        for i in order:
            if self.rs.rand()<p: self._exec(i)
    def apply(self,k,*a,**kw):
        i=next(self._ids); self.tasks[i]=(k,a,kw); self.submitted.append(i); self.ev.append(('s',i))
        if len(self.tasks)>self.mpb: raise Viol(('outstanding exceeds max_parallel_batches',len(self.tasks),self.mpb))
        self._maybe_run(); return i
    def apply_sync(self,k,*a,**kw): return k(*a,**kw)
    def is_ready(self,i):
        if i not in self.tasks: raise Viol(('is_ready on dead id',i))
        self._maybe_run(); r=i in self.done and (i in self.readyset or self.regime=='eager' or self.rs.rand()<0.5)
        if r: self.readyset.add(i)
        self.ev.append(('r',i,r)); return r
    def get_result(self,i):
        if i in self.removed or i in self.gotten or i not in self.tasks: raise Viol(('get_result on dead id',i))
        live=[j for j in self.tasks]
        if i!=min(live): raise Viol(('fetch out of submission order',i,live))
        if i not in self.done: self._exec(i)
        self.gotten.add(i); self.ev.append(('g',i)); self.tasks.pop(i); return self.done.pop(i)
    def remove_task(self,i):
        self.removed.add(i); self.tasks.pop(i,None); self.done.pop(i,None); self.ev.append(('d',i))
    def reset(self): self.tasks.clear()
    @property
    def num_cores(self): return self.cores
def mkmodel(kind):
    m=elfi.ElfiModel(name='m')
    if kind=='hier':
        a=elfi.Prior('uniform',0,2,model=m,name='a'); b=elfi.Prior('uniform',0,a,model=m,name='b')
    else:
        a=elfi.Prior('norm',1,1,model=m,name='a'); b=elfi.Prior('uniform',-1,2,model=m,name='b')
    def sim(a,b,batch_size=1,random_state=None): return np.column_stack([a,b])+0.4*random_state.randn(batch_size,2)
    S=elfi.Simulator(sim,a,b,model=m,name='S',observed=np.array([[1.0,0.4]]))
    d=elfi.Distance('euclidean',S,model=m,name='d')
    return m
def run(client, cfg, mpb):
    elfi.client.set_client(client); m=mkmodel(cfg['model']); hist=[]
    if cfg['sampler']=='rej':
        smp=elfi.Rejection(m['d'],batch_size=cfg['bs'],seed=cfg['seed'],max_parallel_batches=mpb)
    else: smp=elfi.SMC(m['d'],batch_size=cfg['bs'],seed=cfg['seed'],max_parallel_batches=mpb)
    upd=smp.update
    def u(batch,idx): hist.append(idx); return upd(batch,idx)
    smp.update=u
    r=smp.sample(cfg['n'],bar=False,**cfg['kw'])
    if cfg.get('cont'): r=smp.sample(cfg['n'],bar=False,**cfg['cont'])
    if hist!=list(range(len(hist))): raise Viol(('consumed indices',hist))
    if cfg['sampler']=='rej': return [r.outputs,r.threshold,r.n_sim,r.n_batches]
    return [[p.outputs for p in r.populations],[p.weights for p in r.populations],[p.threshold for p in r.populations],[p.n_sim for p in r.populations],r.n_sim]
def eq(a,b):
    if isinstance(a,dict): return a.keys()==b.keys() and all(eq(a[k],b[k]) for k in a)
    if isinstance(a,list): return len(a)==len(b) and all(eq(x,y) for x,y in zip(a,b))
    return np.array_equal(a,b)
rng=random.Random(int(sys.argv[1])); N=int(sys.argv[2]); viol=[]; inter=set(); stats={'runs':0,'cancel':0,'ooo':0}
for it in range(N):
    sampler=rng.choice(['rej','smc']); bs=rng.choice([1,3,10,25]); n=rng.choice([5,12,30])
    if sampler=='rej': kw=rng.choice([dict(threshold=rng.choice([0.3,0.6,1.0])),dict(quantile=rng.choice([0.1,0.3])),dict(n_sim=n*rng.randint(1,6)+rng.randint(0,3))])
    else: kw=rng.choice([dict(thresholds=[1.0,0.7,0.5][:rng.randint(2,3)]),dict(quantiles=[0.5]*rng.randint(2,3))])
    cfg=dict(sampler=sampler,bs=bs,n=n,kw=kw,seed=rng.randint(0,10**6),model=rng.choice(['hier','flat']))
    if sampler=='smc' and rng.random()<0.3: cfg['cont']=dict(thresholds=[0.4]) if 'thresholds' in kw else dict(quantiles=[0.5])
    try: ref=run(nat.Client(),cfg,1)
    except Exception as e: viol.append(('ref failed',cfg,repr(e)[:200])); continue
    for v in range(3):
        mpb=rng.randint(1,8); c=SchedClient(rng.randint(0,10**6),rng.randint(1,8),rng.choice(['eager','lazy','newest','random']),mpb)
        try:
            out=run(c,cfg,mpb); stats['runs']+=1
            if c.tasks: viol.append(('tasks left',cfg,len(c.tasks)))
            if not eq(ref,out): viol.append(('result differs',cfg,c.regime,mpb))
            inter.add(hash(tuple(e[0] if e[0]!='r' else ('r',e[2]) for e in c.ev)))
            stats['cancel']+=bool(c.removed); xs=[e[1] for e in c.ev if e[0]=='x']; stats['ooo']+= xs!=sorted(xs)
        except Viol as e: viol.append(('online',cfg,c.regime,mpb,e.args[0]))
        except Exception as e: viol.append(('EXC',cfg,repr(e)[:200]))
print(stats,'distinct interleavings',len(inter),'viol',len(viol))
for v in viol[:6]: print(str(v)[:400])
