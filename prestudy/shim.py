import numpy as np
for a,b in [('Inf',np.inf),('NINF',-np.inf),('row_stack',np.vstack)]:
    if not hasattr(np,a): setattr(np,a,b)
