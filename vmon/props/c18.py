"""C18 - elfi.tools.vectorize and elfi.tools.external_operation behave as per-row application.

Reference-model monitor.  The real `vectorize` / `external_operation` callables are driven
directly and inside elfi model runs (Operation / Simulator nodes, batch_size > 1).

* vectorize: the wrapped operation is a recording, fingerprinting operation; the oracle is a
  plain Python loop over the rows written from the statement (row i of every non-constant
  input, constants = positions named in the mask or inputs that are not arrays, keyword
  arguments as given), compared entry by entry with the returned array, incl. dtype handling
  (None / explicit / False) and the batch length (from the inputs or from batch_size).
  Inside a model run the batch inputs are taken at the boundary of the vectorised callable
  (a transparent recorder around it), so the same loop oracle applies to what elfi's executor
  handed over.
* external_operation: templates over echo / printf / sh -c / awk built from parts; the
  expected stdout tokens are computed from the parts (never with str.format of the whole
  template), parsed with the requested dtype; the seed token must be equal for equal generator
  states (other inputs and the global RNG varied) and differ between rows of a vectorised batch.
See DESIGN.md section 5 / C18.
"""
import functools
import hashlib
import random

import numpy as np

from vmon.core import Violation

PROPERTY = 'C18'
LEVEL = 'exploration'
TECHNIQUE = ('runtime monitoring: reference-model monitor (per-row Python loop / independently computed command output) '
             'on the return value of the real vectorize and external_operation callables, alone and inside elfi model runs')
LEVEL_TEXT = ('Held on every generated call: arities 0-4, constant masks (list/tuple/None, auto-detected scalars, masked arrays whose '
              'length equals or differs from the batch), dtypes (None, explicit, False), batch sizes 1-8 from inputs or batch_size, '
              'keyword pass-through, repeated use of one vectorised callable; echo/printf/sh/awk templates with positional, keyword, '
              'indexed and formatted fields, eight result dtypes, two separators, seeds under equal generator states and across rows; '
              'both tools inside Operation/Simulator nodes with batch_size > 1. Exploration, not exhaustive: the property quantifies '
              'over input kinds and templates, which only sampling reaches.')
LEVEL_NOTE = ('trusts: numpy array construction/parsing, /bin/sh echo printf awk, the harness fingerprint operation; '
              'in model runs the inputs of the vectorised callable are read at its call boundary')
RULE = ('cases = {direct vectorize call | vectorised op in an Operation/Simulator node | direct external command | vectorised external '
        'command with generator+meta | external command inside a model run} x arity x per-position input kind (batched 1-3d float/int/'
        'str/object arrays, auto-constant scalars incl. numpy scalars and 0-d arrays, masked arrays/scalars) x mask form x dtype x '
        'batch size x keyword arguments x command family x field kinds x result dtype x separator; distinct = hash of the case; '
        'non-trivial = at least one constant and at least one batched input with batch length > 1')
ASSUMPTIONS = [
    'constants = positions in the mask or inputs that are not arrays (scalars, strings, None, numpy scalars, 0-d arrays); arrays outside the mask have the batch length',
    'when neither a batched input nor batch_size is given the batch length is not defined by the statement: not generated',
    'an operation that draws from random_state is applied to rows in ascending order (reference replays the generator from its state at entry)',
    'the row index reaches an external command through the run metadata (meta keyword / uses_meta=True); without it rows are indistinguishable: not generated',
    'the value of index_in_batch itself is not asserted, only that seeds differ between rows',
    'entries of a `meta` keyword other than index_in_batch must reach the operation unchanged',
]
CONFIG = {
    'quick': {'shards': 16, 'cases': 1200, 'timeout': 600, 'floor': 3840},
    'thorough': {'shards': 32, 'cases': 12000, 'timeout': 5400, 'floor': 76000},
}
REQUIRED = ['ext_vec_empty_meta_calls', 'vec_calls', 'vec_rows_checked', 'vec_model_runs', 'vec_second_use', 'dtype_false', 'dtype_explicit',
            'auto_constants', 'masked_constants', 'masked_array_len_eq_batch', 'batch_from_inputs', 'batch_from_batch_size',
            'kwargs_passed',
            'ext_calls', 'ext_tokens_checked', 'ext_positional_fields', 'ext_keyword_fields', 'ext_seed_equal_state_pairs',
            'ext_seed_rows_distinct', 'ext_model_runs', 'ext_model_seed_replayed', 'ext_dtype_nondefault', 'ext_sep_nondefault', 'ext_commands_writing_to_stderr']

BATCH_SIZES = [1, 1, 2, 3, 3, 5, 8]


# ----------------------------------------------------------------------------------------
# fingerprinting operation (module level: picklable, no closures)

def _desc(x):
    if isinstance(x, np.ndarray):
        if x.dtype == object:
            body = repr(x.tolist())
        else:
            body = hashlib.sha1(np.ascontiguousarray(x).tobytes()).hexdigest()[:12]
        return ['nd', str(x.dtype), list(x.shape), body]
    if isinstance(x, np.generic):
        return ['npg', type(x).__name__, repr(x.item())]
    if isinstance(x, np.random.RandomState):
        return ['rs']
    if isinstance(x, dict):
        return ['dict', [[str(k), _desc(v)] for k, v in sorted(x.items()) if k != 'index_in_batch']]
    if isinstance(x, (list, tuple)):
        return [type(x).__name__, [_desc(e) for e in x]]
    return [type(x).__name__, repr(x)]


def _num(x):
    if isinstance(x, np.ndarray):
        if x.dtype.kind in 'fiub':
            f = x.astype(float).ravel()
            return float(np.sum(f * (1.0 + 0.37 * np.arange(f.size))))
        return float(sum(len(str(e)) for e in x.ravel().tolist()))
    if isinstance(x, (bool, np.bool_)):
        return 2.0 if x else 3.0
    if isinstance(x, (int, float, np.integer, np.floating)):
        return float(x)
    if x is None:
        return 0.5
    if isinstance(x, str):
        return float(len(x)) + (ord(x[-1]) / 7.0 if x else 0.0)
    if isinstance(x, dict):
        return float(sum(_num(v) for k, v in sorted(x.items()) if k != 'index_in_batch'))
    if isinstance(x, np.random.RandomState):
        return 0.0
    return float(len(repr(x)))


def _kww(k):
    return 0.1 + (sum(ord(c) for c in k) % 17) / 10.0


def _shape_out(kind, val, d):
    if kind == 'float':
        return val
    if kind == 'npfloat':
        return np.float64(val)
    if kind == 'int':
        return int(round(val * 1000)) % 100003
    if kind == 'vec3':
        return np.array([val, 2 * val, val + 1])
    if kind == 'mat':
        return np.array([[val, 1.0], [2.0, val * val]])
    if kind == 'str':
        return '%.6f' % val
    if kind == 'tuple':
        return (val, repr(d))
    if kind == 'ragged':
        return np.arange(int(abs(val) * 1000) % 4) * val
    if kind == 'dict':
        return {'v': val, 'd': repr(d)}
    if kind == 'none':
        return None
    raise AssertionError(kind)


class RecOp:
    """The 'original operation': records what it was called with and returns a fingerprint of it."""

    def __init__(self, out_kind, draw=False):
        self.out_kind, self.draw, self.log = out_kind, draw, []

    def __call__(self, *args, **kwargs):
        d = [[_desc(a) for a in args], [[k, _desc(v)] for k, v in sorted(kwargs.items())]]
        meta = kwargs.get('meta')
        idx = meta.get('index_in_batch') if isinstance(meta, dict) else None
        val = 0.0
        for j, a in enumerate(args):
            val += (j + 1.5) * _num(a)
        for k, v in sorted(kwargs.items()):
            val += _kww(k) * _num(v)
        if self.draw and kwargs.get('random_state') is not None:
            val += float(kwargs['random_state'].normal())
        self.log.append((d, idx))
        return _shape_out(self.out_kind, val, d)


class Boundary:
    """Transparent recorder around a callable: what it was called with, what it returned."""

    def __init__(self, fn):
        self.fn, self.calls = fn, []

    def __call__(self, *a, **k):
        rec = {'args': a, 'kwargs': dict(k)}
        if isinstance(k.get('meta'), dict):
            rec['meta'] = dict(k['meta'])
        if isinstance(k.get('random_state'), np.random.RandomState):
            rec['rs_state'] = k['random_state'].get_state()
        self.calls.append(rec)
        rec['result'] = self.fn(*a, **k)
        return rec['result']


def _deep_eq(a, b):
    if isinstance(a, np.ndarray) or isinstance(b, np.ndarray):
        return (isinstance(a, np.ndarray) and isinstance(b, np.ndarray) and a.dtype == b.dtype and a.shape == b.shape
                and bool(np.array_equal(a, b)))
    if type(a) is not type(b):
        return False
    if isinstance(a, (list, tuple)):
        return len(a) == len(b) and all(_deep_eq(x, y) for x, y in zip(a, b))
    if isinstance(a, dict):
        return sorted(a) == sorted(b) and all(_deep_eq(a[k], b[k]) for k in a)
    return a == b


def _dtype_arg(code):
    """case encoding -> the object handed to elfi as dtype / process_result."""
    if code is None or code is False:
        return code
    if code.startswith('dt:'):
        return np.dtype(code[3:])
    if code.startswith('np:'):
        return getattr(np, code[3:])
    return code


def _dtype_of(code, default=None):
    if code is None:
        return default
    return np.dtype(code.split(':')[-1])


def _perturb_globals(k):
    np.random.seed(k % (2 ** 31))
    np.random.rand(3)
    random.seed(k)


# ----------------------------------------------------------------------------------------
# vectorize: generator and oracle

BATCH_KINDS = ['f1', 'f1', 'f2', 'f3', 'i1', 'u1', 'o1']
AUTO_KINDS = ['pyfloat', 'pyint', 'str', 'none', 'npfloat', 'zerod', 'bool', 'npint']
MASKED_KINDS = ['arr_bs', 'arr_bs', 'arr_other', 'arr2_bs', 'scalar', 'zerod']
OUT_DTYPES = {
    'float': [None, None, 'float64', 'float32', 'np:float32', 'dt:float64', False, 'object'],
    'npfloat': [None, 'float32', False],
    'int': [None, 'int64', 'int32', 'float64', False, 'dt:int64'],
    'vec3': [None, None, 'float32', 'float64', False],
    'mat': [None, 'float32', False],
    'str': [None, False, 'object'],
    'tuple': [False], 'ragged': [False], 'dict': [False], 'none': [False],
}
OUT_KINDS = ['float', 'float', 'npfloat', 'int', 'vec3', 'vec3', 'mat', 'str', 'tuple', 'ragged', 'dict', 'none']


def _gen_roles(rng, arity, p_batch=0.55, p_masked=0.2):
    pos = []
    for _ in range(arity):
        u = rng.random()
        if u < p_batch:
            pos.append({'role': 'batch', 'kind': str(rng.choice(BATCH_KINDS)), 'k': int(rng.integers(1, 4))})
        elif u < p_batch + p_masked:
            pos.append({'role': 'masked', 'kind': str(rng.choice(MASKED_KINDS))})
        else:
            pos.append({'role': 'auto', 'kind': str(rng.choice(AUTO_KINDS))})
    return pos


def _gen_dtype(rng, out_kind):
    return OUT_DTYPES[out_kind][int(rng.integers(len(OUT_DTYPES[out_kind])))]


def _gen_kwargs(rng):
    names = []
    for n, p in [('scale', 0.4), ('tag', 0.25), ('table', 0.3), ('opts', 0.2), ('random_state', 0.4), ('meta', 0.4)]:
        if rng.random() < p:
            names.append(n)
    return names


def gen_vec(rng):
    arity = int(rng.choice([0, 1, 1, 2, 2, 3, 3, 4]))
    out_kind = str(rng.choice(OUT_KINDS))
    pos = _gen_roles(rng, arity)
    form = str(rng.choice(['list', 'tuple', 'list_plus_auto', 'positional']))
    mask = [j for j, p in enumerate(pos) if p['role'] == 'masked']
    if form == 'list_plus_auto':       # scalars may be named in the mask too
        mask = sorted(mask + [j for j, p in enumerate(pos) if p['role'] == 'auto' and rng.random() < 0.5])
    if not mask and form != 'tuple':
        mask = None
    case = {'kind': 'vec', 'bs': int(rng.choice(BATCH_SIZES)), 'pos': pos, 'out': out_kind,
            'dtype': _gen_dtype(rng, out_kind), 'kw': _gen_kwargs(rng), 'draw': bool(rng.random() < 0.3),
            'mask_form': form, 'mask': mask,
            'give_bs': bool(rng.random() < 0.5), 'seed': int(rng.integers(0, 2 ** 31 - 1)),
            'again': bool(rng.random() < 0.5)}
    if case['again']:
        # second use of the same vectorised callable: positions outside the mask get fresh roles
        pos2 = []
        for j, p in enumerate(pos):
            if mask is not None and j in mask:
                pos2.append(dict(p))
            else:
                pos2.extend(_gen_roles(rng, 1, p_batch=0.6, p_masked=0.0))
        case['pos2'] = pos2
        case['bs2'] = int(rng.choice(BATCH_SIZES))
    return case


def _make_input(rng, p, bs):
    role, kind = p['role'], p['kind']
    if role == 'batch':
        k = p.get('k', 2)
        if kind == 'f1':
            return rng.normal(size=bs)
        if kind == 'f2':
            return rng.normal(size=(bs, k))
        if kind == 'f3':
            return rng.normal(size=(bs, 2, k))
        if kind == 'i1':
            return rng.integers(-50, 50, size=bs)
        if kind == 'u1':
            return np.array(['s%d' % rng.integers(1000) for _ in range(bs)])
        if kind == 'o1':
            a = np.empty(bs, dtype=object)
            for i in range(bs):
                a[i] = (int(rng.integers(100)), 'x' * int(rng.integers(1, 4)))
            return a
    if kind == 'pyfloat' or kind == 'scalar':
        return float(rng.normal())
    if kind == 'pyint':
        return int(rng.integers(-9, 10))
    if kind == 'str':
        return 'txt%d' % rng.integers(100)
    if kind == 'none':
        return None
    if kind == 'npfloat':
        return np.float64(rng.normal())
    if kind == 'npint':
        return np.int64(rng.integers(-9, 10))
    if kind == 'zerod':
        return np.array(float(rng.normal()))
    if kind == 'bool':
        return bool(rng.random() < 0.5)
    if kind == 'arr_bs':
        return rng.normal(size=bs)
    if kind == 'arr_other':
        return rng.normal(size=bs + 1 + int(rng.integers(3)))
    if kind == 'arr2_bs':
        return rng.normal(size=(bs, 2))
    raise AssertionError(p)


def _make_kwargs(rng, names, bs):
    kw = {}
    for n in names:
        if n == 'scale':
            kw[n] = float(rng.normal())
        elif n == 'tag':
            kw[n] = 'tag%d' % rng.integers(50)
        elif n == 'table':
            kw[n] = rng.normal(size=bs)      # an array keyword of batch length: must not be sliced
        elif n == 'opts':
            kw[n] = {'a': int(rng.integers(9)), 'b': [1.5, 'z']}
        elif n == 'random_state':
            kw[n] = np.random.RandomState(int(rng.integers(2 ** 31 - 1)))
        elif n == 'meta':
            kw[n] = {'batch_index': int(rng.integers(100)), 'model_name': 'm%d' % rng.integers(9)}
    return kw


def _reference_rows(out_kind, draw, inputs, const_set, kwargs, bs, rs_state):
    """The statement, as a loop: row i of every non-constant input, constants and keywords as they are."""
    ref = RecOp(out_kind, draw)
    kw = dict(kwargs)
    if 'random_state' in kw and rs_state is not None:
        r = np.random.RandomState(0)
        r.set_state(rs_state)
        kw['random_state'] = r
    if isinstance(kw.get('meta'), dict):
        kw['meta'] = {k: v for k, v in kw['meta'].items() if k != 'index_in_batch'}
    outs = []
    for i in range(bs):
        row = [inp if j in const_set else inp[i] for j, inp in enumerate(inputs)]
        outs.append(ref(*row, **kw))
    return outs, ref.log


def check_vectorized(ctx, result, outs, reflog, oplog, dtype_code, bs, where):
    if not isinstance(result, np.ndarray):
        raise Violation('vec-not-array', '%s: vectorised call returned %s, not an array' % (where, type(result).__name__))
    if result.ndim < 1 or len(result) != bs:
        raise Violation('vec-batch-length', '%s: result has shape %s, batch length should be %d' % (where, result.shape, bs),
                        {'shape': list(result.shape), 'expected_rows': bs})
    if dtype_code is False:
        ctx.event('dtype_false')
        if result.dtype != object or result.ndim != 1:
            raise Violation('vec-dtype-false', '%s: dtype=False must give a 1-d object array, got %s %s' % (where, result.dtype, result.shape))
        for i in range(bs):
            if not _deep_eq(result[i], outs[i]):
                raise Violation('vec-row', '%s: entry %d is not the operation applied to row %d (dtype=False)' % (where, i, i),
                                {'got': repr(result[i])[:300], 'expected': repr(outs[i])[:300]})
    else:
        dt = _dtype_arg(dtype_code)
        exp = np.array(outs) if dt is None else np.array(outs, dtype=dt)
        if dt is not None:
            ctx.event('dtype_explicit')
        if result.dtype != exp.dtype:
            raise Violation('vec-dtype', '%s: result dtype %s, expected %s (dtype=%r)' % (where, result.dtype, exp.dtype, dtype_code))
        if result.shape != exp.shape:
            raise Violation('vec-shape', '%s: result shape %s, expected %s' % (where, result.shape, exp.shape))
        for i in range(bs):
            if not np.array_equal(result[i], exp[i]):
                raise Violation('vec-row', '%s: entry %d is not the operation applied to row %d' % (where, i, i),
                                {'got': result[i], 'expected': exp[i]})
    ctx.event('vec_rows_checked', bs)
    seen = [x[0] for x in oplog]
    for i, (d, _) in enumerate(reflog):
        if d not in seen:
            raise Violation('vec-call-args', '%s: the operation was never called with row %d of the batched inputs and the '
                            'constants / keyword arguments unchanged' % (where, i),
                            {'expected_call': d, 'first_calls_seen': seen[:3]})
    n_idx = sum(1 for i, x in enumerate(oplog[:bs]) if x[1] == i)
    if n_idx:
        ctx.event('meta_rows_seen', n_idx)


def _one_vec_call(ctx, v, op, case, pos, bs, rng, give_bs, where):
    inputs = [_make_input(rng, p, bs) for p in pos]
    kwargs = _make_kwargs(rng, case['kw'], bs)
    const_set = {j for j, p in enumerate(pos) if p['role'] != 'batch'}
    n_batch = len(pos) - len(const_set)
    rs_state = kwargs['random_state'].get_state() if 'random_state' in kwargs else None
    call_kw = dict(kwargs)
    if give_bs or n_batch == 0:
        call_kw['batch_size'] = bs
        ctx.event('batch_from_batch_size' if n_batch == 0 else 'batch_size_and_inputs')
    else:
        ctx.event('batch_from_inputs')
    del op.log[:]
    result = v(*inputs, **call_kw)
    ctx.event('vec_calls')
    outs, reflog = _reference_rows(case['out'], case['draw'], inputs, const_set, kwargs, bs, rs_state)
    check_vectorized(ctx, result, outs, reflog, op.log, case['dtype'], bs, where)
    if kwargs:
        ctx.event('kwargs_passed')
    ctx.event('auto_constants', sum(1 for p in pos if p['role'] == 'auto'))
    ctx.event('masked_constants', sum(1 for p in pos if p['role'] == 'masked'))
    ctx.event('masked_array_len_eq_batch', sum(1 for p in pos if p['role'] == 'masked' and p['kind'] in ('arr_bs', 'arr2_bs')))
    ctx.distinct('vec_class', 'a%d|b%d|c%d|%s|%s' % (len(pos), n_batch, len(const_set), case['out'], case['dtype']))
    ctx.nontrivial(bs > 1 and n_batch >= 1 and len(const_set) >= 1)


def run_vec(ctx, case):
    import elfi
    rng = np.random.default_rng(case['seed'])
    op = RecOp(case['out'], case['draw'])
    mask = case['mask']
    if mask is not None and case['mask_form'] == 'tuple':
        mask = tuple(mask)
    dt = _dtype_arg(case['dtype'])
    if case['mask_form'] == 'positional':
        v = elfi.tools.vectorize(op, mask, dt)
    else:
        v = elfi.tools.vectorize(op, constants=mask, dtype=dt)
    _one_vec_call(ctx, v, op, case, case['pos'], case['bs'], rng, case['give_bs'], 'direct call')
    if case.get('again'):
        _one_vec_call(ctx, v, op, case, case['pos2'], case['bs2'], rng, not case['give_bs'], 'second call of the same vectorised callable')
        ctx.event('vec_second_use')


# -- vectorised operation inside a model run

PARENT_SRC = ['prior_u', 'prior_n2', 'prior_u3', 'op_int', 'op_str']


def gen_vec_model(rng):
    arity = int(rng.choice([1, 2, 2, 3, 3, 4]))
    parents = []
    for _ in range(arity):
        u = rng.random()
        if u < 0.5:
            parents.append({'role': 'batch', 'src': str(rng.choice(PARENT_SRC))})
        elif u < 0.7:
            parents.append({'role': 'masked', 'kind': str(rng.choice(['arr_bs', 'arr_other', 'arr2_bs']))})
        else:
            parents.append({'role': 'auto', 'kind': str(rng.choice(['pyfloat', 'pyint', 'str', 'none', 'npfloat']))})
    if not any(p['role'] == 'batch' for p in parents):
        parents[0] = {'role': 'batch', 'src': 'prior_u'}
    out_kind = str(rng.choice(['float', 'float', 'int', 'vec3', 'mat', 'npfloat']))
    node = str(rng.choice(['Simulator', 'Operation']))
    return {'kind': 'vec_model', 'bs': int(rng.choice([1, 2, 3, 5, 8])), 'parents': parents, 'out': out_kind,
            'dtype': _gen_dtype(rng, out_kind), 'node': node, 'uses_meta': bool(rng.random() < 0.5),
            'draw': bool(node == 'Simulator' and rng.random() < 0.6), 'mask_form': str(rng.choice(['list', 'tuple'])),
            'seed': int(rng.integers(0, 2 ** 31 - 1)), 'extra_kw': bool(rng.random() < 0.4)}


def _to_int(x):
    return np.floor(x * 50).astype(int)


def _to_str(x):
    return np.array(['v%d' % int(e * 100) for e in x])


def _build_parents(elfi, m, parents, bs, rng):
    refs = []
    for j, p in enumerate(parents):
        name = 'in%d' % j
        if p['role'] == 'batch':
            src = p['src']
            if src == 'prior_u':
                r = elfi.Prior('uniform', 0, 1, model=m, name=name)
            elif src == 'prior_n2':
                r = elfi.Prior('normal', 0, 1, size=2, model=m, name=name)
            elif src == 'prior_u3':
                r = elfi.Prior('uniform', -1, 2, size=3, model=m, name=name)
            elif src == 'op_int':
                base = elfi.Prior('uniform', 0, 1, model=m, name=name + 'b')
                r = elfi.Operation(_to_int, base, model=m, name=name)
            else:
                base = elfi.Prior('uniform', 0, 1, model=m, name=name + 'b')
                r = elfi.Operation(_to_str, base, model=m, name=name)
        else:
            r = elfi.Constant(_make_input(rng, p, bs), model=m, name=name)
        refs.append(r)
    return refs


def run_vec_model(ctx, case):
    import elfi
    rng = np.random.default_rng(case['seed'])
    bs = case['bs']
    m = elfi.ElfiModel(name='c18')
    refs = _build_parents(elfi, m, case['parents'], bs, rng)
    op = RecOp(case['out'], case['draw'])
    masked = [j for j, p in enumerate(case['parents']) if p['role'] == 'masked']
    mask = (tuple(masked) if case['mask_form'] == 'tuple' else list(masked)) if masked else None
    v = elfi.tools.vectorize(op, constants=mask, dtype=_dtype_arg(case['dtype']))
    fn = v
    if case['extra_kw']:
        fn = functools.partial(v, scale=1.25, table=np.arange(float(bs)))
    bnd = Boundary(fn)
    cls = getattr(elfi, case['node'])
    node = cls(bnd, *refs, model=m, name='node')
    if case['uses_meta']:
        node.uses_meta = True
    names = ['in%d' % j for j, p in enumerate(case['parents']) if p['role'] == 'batch'] + ['node']
    out = m.generate(bs, outputs=names, seed=case['seed'] % (2 ** 31))
    ctx.event('vec_model_runs')
    call = bnd.calls[-1]
    inputs = list(call['args'])
    const_set = {j for j, p in enumerate(case['parents']) if p['role'] != 'batch'}
    for j, p in enumerate(case['parents']):
        if p['role'] == 'batch' and not (isinstance(inputs[j], np.ndarray) and len(inputs[j]) == bs):
            raise AssertionError('harness: parent %d did not deliver a batch' % j)
    kwargs = {k: x for k, x in call['kwargs'].items() if k != 'batch_size'}
    if 'meta' in call:
        kwargs['meta'] = call['meta']
    if case['extra_kw']:
        kwargs.update(scale=1.25, table=np.arange(float(bs)))
    outs, reflog = _reference_rows(case['out'], case['draw'], inputs, const_set, kwargs, bs, call.get('rs_state'))
    where = 'vectorised %s in a model run (batch_size=%d)' % (case['node'], bs)
    check_vectorized(ctx, call['result'], outs, reflog, op.log, case['dtype'], bs, where)
    ctx.event('vec_calls')
    got = out['node']
    res = call['result']
    same = (got is res) or (isinstance(got, np.ndarray) and got.shape == res.shape and
                            all(_deep_eq(got[i], res[i]) if res.dtype == object else np.array_equal(got[i], res[i]) for i in range(bs)))
    if not same:
        raise Violation('vec-model-output', '%s: model output differs from what the vectorised operation returned' % where,
                        {'got': repr(got)[:300], 'returned': repr(res)[:300]})
    if 'batch_size' in call['kwargs']:
        ctx.event('batch_size_and_inputs')
    else:
        ctx.event('batch_from_inputs')
    if kwargs:
        ctx.event('kwargs_passed')
    ctx.event('auto_constants', sum(1 for p in case['parents'] if p['role'] == 'auto'))
    ctx.event('masked_constants', len(masked))
    ctx.event('masked_array_len_eq_batch', sum(1 for p in case['parents'] if p['role'] == 'masked' and p['kind'] in ('arr_bs', 'arr2_bs')))
    ctx.distinct('vec_model_class', '%s|%s|%s|meta%d' % (case['node'], case['out'], case['dtype'], case['uses_meta']))
    ctx.nontrivial(bs > 1 and len(const_set) >= 1)


# ----------------------------------------------------------------------------------------
# external_operation: templates from parts, expected tokens computed from the parts

FAMILIES = ['echo', 'echo', 'echo_sep', 'printf', 'printf_sep', 'sh', 'awk', 'awk_v']
INT_DTYPES = [None, 'int64', 'int32', 'float64', 'dt:int16', 'dt:int64', 'float32']
FLOAT_DTYPES = [None, None, 'float64', 'float32', 'dt:float64', 'dt:float32']


def _gen_value(rng, t):
    if t == 'int':
        return int(rng.integers(-99, 100))
    if t == 'npint':
        return int(rng.integers(-99, 100))
    if t in ('float', 'npfloat'):
        s = float(rng.choice([1.0, 1e-3, 1e4]))
        return float(rng.normal() * s)
    if t == 'strint':
        return str(int(rng.integers(0, 100)))
    if t == 'strfloat':
        return '%.3f' % float(rng.normal())
    if t == 'vec':
        return [float(x) for x in rng.normal(size=3)]
    if t == 'ivec':
        return [int(x) for x in rng.integers(-20, 20, size=3)]
    raise AssertionError(t)


def _realise(t, v):
    if t == 'npint':
        return np.int64(v)
    if t == 'npfloat':
        return np.float64(v)
    if t == 'vec':
        return np.array(v, dtype=float)
    if t == 'ivec':
        return np.array(v, dtype=int)
    return v


def _is_int_type(t):
    return t in ('int', 'npint', 'strint', 'ivec')


def gen_ext_common(rng, int_only, batchable):
    """positional inputs, keyword inputs, fields over them."""
    n_pos = int(rng.integers(1, 4))
    if int_only:
        types = ['int', 'npint', 'strint', 'ivec']
    else:
        types = ['int', 'npint', 'float', 'npfloat', 'strint', 'strfloat', 'vec', 'ivec']
    inputs = []
    for _ in range(n_pos):
        t = str(rng.choice(types))
        inputs.append({'t': t, 'v': _gen_value(rng, t)})
    kw = {}
    for name in ['a', 'rate', 'n_obs']:
        if rng.random() < 0.5:
            t = str(rng.choice(['int', 'npint'] if int_only else ['int', 'float', 'npfloat', 'strint']))
            kw[name] = {'t': t, 'v': _gen_value(rng, t)}
    return inputs, kw


def _field_for(rng, where, key, t, allow_spec):
    f = {'f': where, 'key': key, 'idx': None, 'spec': None}
    if t in ('vec', 'ivec'):
        f['idx'] = int(rng.integers(0, 3))
    if allow_spec and rng.random() < 0.25:
        if t in ('float', 'npfloat', 'vec'):
            f['spec'] = str(rng.choice(['.3f', '.2e', '.10g']))
        elif t in ('int', 'npint', 'ivec'):
            f['spec'] = 'd'
    return f


def gen_fields(rng, family, inputs, kw, with_seed, meta_keys):
    allow_spec = family not in ('sh', 'awk', 'awk_v')
    fields = []
    n = 2 if family in ('awk',) else int(rng.integers(2, 6))
    if family == 'awk_v':
        n = 1
    cands = [('pos', j, inp['t']) for j, inp in enumerate(inputs)] + [('kw', k, x['t']) for k, x in sorted(kw.items())]
    # every input is used at least once when there is room, then random picks / literals
    order = [cands[i] for i in rng.permutation(len(cands))]
    for i in range(n):
        if i < len(order) and (i < 2 or rng.random() < 0.7):
            w, key, t = order[i]
            fields.append(_field_for(rng, w, key, t, allow_spec))
        elif rng.random() < 0.5:
            w, key, t = cands[int(rng.integers(len(cands)))]
            fields.append(_field_for(rng, w, key, t, allow_spec))
        else:
            fields.append({'f': 'lit', 'v': int(rng.integers(0, 100)) if (family in ('sh', 'awk', 'awk_v') or rng.random() < 0.5)
                           else float('%.4f' % rng.normal())})
    if family not in ('awk', 'awk_v'):
        for mk in meta_keys:
            if rng.random() < 0.5:
                fields.append({'f': 'meta', 'key': mk, 'idx': None, 'spec': None})
        if with_seed:
            fields.insert(int(rng.integers(2 if family == 'sh' else 0, len(fields) + 1)), {'f': 'seed'})
            if rng.random() < 0.2:
                fields.append({'f': 'seed'})
    return fields


def _ftext(f):
    if f['f'] == 'lit':
        return repr(f['v'])
    if f['f'] == 'seed':
        return '{seed}'
    key = f['key']
    return '{%s%s%s}' % (key, '[%d]' % f['idx'] if f['idx'] is not None else '', ':' + f['spec'] if f['spec'] else '')


def stderr_noise(family, fields, spaces):
    # a third of the commands also write numeric diagnostics to their standard ERROR stream, as real simulators do
    # (progress counters, warnings); the statement parses standard OUTPUT only
    return (len(fields) + spaces + len(family)) % 3 == 0


def build_template(family, fields, spaces):
    t, sep = _build_template(family, fields, spaces)
    if stderr_noise(family, fields, spaces):
        t = 'echo 77 3 >&2; ' + t + '; echo 100 >&2'
    return t, sep


def _build_template(family, fields, spaces):
    parts = [_ftext(f) for f in fields]
    if family == 'echo':
        gap = ' ' * spaces
        return 'echo ' + gap.join(parts), ' '
    if family == 'echo_sep':
        return 'echo ' + ','.join(parts), ','
    if family == 'printf':
        return "printf '" + ' '.join(['%s'] * len(parts)) + "\\n' " + ' '.join(parts), ' '
    if family == 'printf_sep':
        return "printf '" + ':'.join(['%s'] * len(parts)) + "' " + ' '.join(parts), ':'
    if family == 'sh':
        return "sh -c 'echo $(( %s + %s )) %s'" % (parts[0], parts[1], ' '.join(parts[2:])), ' '
    if family == 'awk':
        return "awk 'BEGIN {{ print (%s)*2, (%s)+1 }}'" % (parts[0], parts[1]), ' '
    if family == 'awk_v':
        return "awk -v x=%s 'BEGIN {{ print x+1, x*3 }}'" % parts[0], ' '
    raise AssertionError(family)


def _field_value(f, inputs, kw, meta):
    """Python number that the substituted field denotes (None for the seed)."""
    if f['f'] == 'lit':
        return f['v']
    if f['f'] == 'seed':
        return None
    if f['f'] == 'meta':
        return int(meta[f['key']])
    src = inputs[f['key']] if f['f'] == 'pos' else kw[f['key']]
    if f['idx'] is not None:
        src = src[f['idx']]
    if isinstance(src, str):
        return int(src) if src.lstrip('-').isdigit() else float(src)
    if isinstance(src, (int, np.integer)):
        v = int(src)
        return int(format(v, f['spec'])) if f['spec'] else v
    v = float(src)
    return float(format(v, f['spec'])) if f['spec'] else v


def expected_tokens(family, fields, inputs, kw, meta):
    vals = [_field_value(f, inputs, kw, meta) for f in fields]
    if family == 'sh':
        return [vals[0] + vals[1]] + vals[2:]
    if family == 'awk':
        return [vals[0] * 2, vals[1] + 1]
    if family == 'awk_v':
        return [vals[0] + 1, vals[0] * 3]
    return vals


def _pick_ext_dtype(rng, int_only, has_seed):
    if int_only:
        c = [d for d in INT_DTYPES if not (has_seed and d in ('dt:int16', 'float32'))]
    else:
        c = [d for d in FLOAT_DTYPES if not (has_seed and d in ('float32', 'dt:float32'))]
    return c[int(rng.integers(len(c)))]


def gen_ext(rng, kind):
    family = str(rng.choice(FAMILIES))
    int_only = family in ('sh', 'awk', 'awk_v') or rng.random() < 0.35
    inputs, kw = gen_ext_common(rng, int_only, batchable=False)
    with_rs = bool(rng.random() < 0.7) or kind != 'ext'
    meta = None
    if kind != 'ext' or rng.random() < 0.3:
        meta = {'batch_index': int(rng.integers(0, 50)), 'submission_index': int(rng.integers(0, 9))}
        if kind == 'ext_vec' and rng.random() < 0.25:
            meta = {}            # an empty metadata dictionary is still a metadata dictionary: rows must stay distinguishable
    fields = gen_fields(rng, family, inputs, kw, with_rs and family not in ('awk', 'awk_v'), sorted(meta) if meta else [])
    has_seed = any(f['f'] == 'seed' for f in fields)
    if any(isinstance(f.get('v'), float) for f in fields if f['f'] == 'lit'):
        int_only = False
    case = {'kind': kind, 'family': family, 'inputs': inputs, 'kw': kw, 'fields': fields, 'meta': meta,
            'rs_seed': int(rng.integers(0, 2 ** 31 - 1)) if with_rs else None,
            'dtype': _pick_ext_dtype(rng, int_only and all(_is_int_type(x['t']) for x in inputs + list(kw.values())), has_seed),
            'spaces': int(rng.integers(1, 4)), 'sep_explicit': bool(rng.random() < 0.5),
            'seed': int(rng.integers(0, 2 ** 31 - 1))}
    if kind == 'ext_vec':
        case['bs'] = int(rng.choice([1, 2, 3, 3, 5, 8]))
        # which positional inputs are batched (each row gets its own value of the same type)
        case['batched'] = [bool(rng.random() < 0.6) for _ in inputs]
        if not any(case['batched']):
            case['batched'][0] = True
        case['give_bs'] = bool(rng.random() < 0.5)
        case['recorder'] = bool(rng.random() < 0.5)
    return case


def _make_ext_op(elfi, case):
    template, sep = build_template(case['family'], case['fields'], case['spaces'])
    kwargs = {}
    pr = _dtype_arg(case['dtype'])
    if pr is not None:
        kwargs['process_result'] = pr
    if sep != ' ' or case['sep_explicit']:
        kwargs['sep'] = sep
    return elfi.tools.external_operation(template, **kwargs), template, sep


def _check_ext_result(ctx, res, tokens, dtype_code, where, template):
    edt = _dtype_of(dtype_code, np.dtype(float))
    if not isinstance(res, np.ndarray):
        raise Violation('ext-not-array', '%s: result is %s' % (where, type(res).__name__), {'template': template})
    if res.dtype != edt:
        raise Violation('ext-dtype', '%s: result dtype %s, requested %s' % (where, res.dtype, edt), {'template': template})
    if res.shape != (len(tokens),):
        raise Violation('ext-shape', '%s: parsed %s values, the command prints %d' % (where, res.shape, len(tokens)),
                        {'template': template, 'got': res, 'expected_tokens': tokens})
    seeds = []
    for i, t in enumerate(tokens):
        if t is None:
            seeds.append(res[i])
            continue
        e = np.array(t, dtype=edt)
        if not (res[i] == e):
            raise Violation('ext-value', '%s: value %d of stdout is %r, the substituted command prints %r' % (where, i, res[i], t),
                            {'template': template, 'got': res, 'expected_tokens': tokens})
        ctx.event('ext_tokens_checked')
    if len(set(float(s) for s in seeds)) > 1:
        raise Violation('ext-seed-inconsistent', '%s: {seed} substituted with different values in one command' % where, {'got': res})
    return float(seeds[0]) if seeds else None


def _count_fields(ctx, case):
    ctx.event('ext_positional_fields', sum(1 for f in case['fields'] if f['f'] == 'pos'))
    ctx.event('ext_keyword_fields', sum(1 for f in case['fields'] if f['f'] in ('kw', 'meta')))
    ctx.event('ext_indexed_fields', sum(1 for f in case['fields'] if f.get('idx') is not None))
    ctx.event('ext_formatted_fields', sum(1 for f in case['fields'] if f.get('spec')))
    if case['dtype'] is not None:
        ctx.event('ext_dtype_nondefault')
    if case['family'] in ('echo_sep', 'printf_sep'):
        ctx.event('ext_sep_nondefault')
    if stderr_noise(case['family'], case['fields'], case['spaces']):
        ctx.event('ext_commands_writing_to_stderr')
    ctx.distinct('ext_class', '%s|%s|%s' % (case['kind'], case['family'], case['dtype']))


def run_ext(ctx, case):
    import elfi
    op, template, sep = _make_ext_op(elfi, case)
    inputs = [_realise(x['t'], x['v']) for x in case['inputs']]
    kw = {k: _realise(x['t'], x['v']) for k, x in case['kw'].items()}
    meta = case['meta']

    def call(inps, k):
        kk = dict(kw)
        if case['rs_seed'] is not None:
            kk['random_state'] = np.random.RandomState(case['rs_seed'])
        if meta is not None:
            kk['meta'] = dict(meta)
        _perturb_globals(case['seed'] + k)
        ctx.event('ext_calls')
        return op(*inps, **kk)

    tokens = expected_tokens(case['family'], case['fields'], inputs, kw, meta)
    s1 = _check_ext_result(ctx, call(inputs, 1), tokens, case['dtype'], 'direct call', template)
    _count_fields(ctx, case)
    if s1 is not None:
        s2 = _check_ext_result(ctx, call(inputs, 2), tokens, case['dtype'], 'repeated call', template)
        # other inputs change, generator state equal: the seed is a function of the generator only
        inputs3 = [(_realise(x['t'], (x['v'] + 1) if x['t'] in ('int', 'npint') else x['v'])) for x in case['inputs']]
        tokens3 = expected_tokens(case['family'], case['fields'], inputs3, kw, meta)
        s3 = _check_ext_result(ctx, call(inputs3, 3), tokens3, case['dtype'], 'call with other inputs', template)
        if not (s1 == s2 == s3):
            raise Violation('ext-seed-not-deterministic', 'seed differs between calls with equal generator state: %r %r %r' % (s1, s2, s3),
                            {'template': template, 'rs_seed': case['rs_seed']})
        ctx.event('ext_seed_equal_state_pairs', 2)
    ctx.nontrivial(False)


def _ext_vec_inputs(case, rng):
    bs = case['bs']
    inputs, batched = [], []
    for x, b in zip(case['inputs'], case['batched']):
        t = x['t']
        if not b:
            inputs.append(_realise(t, x['v']))
            batched.append(False)
            continue
        batched.append(True)
        if t in ('int', 'npint', 'strint'):
            inputs.append(rng.integers(-99, 100, size=bs))
        elif t in ('float', 'npfloat', 'strfloat'):
            inputs.append(rng.normal(size=bs) * float(rng.choice([1.0, 1e-3, 1e4])))
        elif t == 'vec':
            inputs.append(rng.normal(size=(bs, 3)))
        else:
            inputs.append(rng.integers(-20, 20, size=(bs, 3)))
    return inputs, batched


def run_ext_vec(ctx, case):
    import elfi
    rng = np.random.default_rng(case['seed'])
    op, template, sep = _make_ext_op(elfi, case)
    bs = case['bs']
    inputs, batched = _ext_vec_inputs(case, rng)
    kw = {k: _realise(x['t'], x['v']) for k, x in case['kw'].items()}
    meta = case['meta']
    inner = Boundary(op) if case['recorder'] else op
    mask = [j for j, (inp, b) in enumerate(zip(inputs, batched)) if not b and isinstance(inp, np.ndarray)]
    v = elfi.tools.vectorize(inner, constants=mask or None)

    def call(k):
        kk = dict(kw)
        kk['random_state'] = np.random.RandomState(case['rs_seed'])
        kk['meta'] = dict(meta)
        if case['give_bs']:
            kk['batch_size'] = bs
        _perturb_globals(case['seed'] + k)
        ctx.event('ext_calls', bs)
        ctx.event('ext_vec_empty_meta_calls', meta == {})
        return v(*inputs, **kk)

    def check(res, label):
        if not isinstance(res, np.ndarray) or res.ndim != 2 or len(res) != bs:
            raise Violation('ext-vec-shape', '%s: vectorised external operation returned shape %s for batch %d' % (
                label, getattr(res, 'shape', None), bs), {'template': template})
        seeds = []
        for i in range(bs):
            row = [inp[i] if b else inp for inp, b in zip(inputs, batched)]
            tokens = expected_tokens(case['family'], case['fields'], row, kw, meta)
            seeds.append(_check_ext_result(ctx, res[i], tokens, case['dtype'], '%s, row %d of %d' % (label, i, bs), template))
        return seeds

    seeds1 = check(call(1), 'vectorised external operation')
    _count_fields(ctx, case)
    if seeds1[0] is not None:
        if len(set(seeds1)) != bs:
            raise Violation('ext-seed-rows-equal', 'seed does not differ between rows of a batch: %s' % seeds1,
                            {'template': template, 'seeds': seeds1, 'batch': bs})
        if bs > 1:
            ctx.event('ext_seed_rows_distinct', bs)
        seeds2 = check(call(2), 'repeated vectorised external operation')
        if seeds1 != seeds2:
            raise Violation('ext-seed-not-deterministic', 'seeds differ between calls with equal generator state', {
                'first': seeds1, 'second': seeds2, 'template': template})
        ctx.event('ext_seed_equal_state_pairs', bs)
    ctx.event('auto_constants', sum(1 for inp, b in zip(inputs, batched) if not b and not isinstance(inp, np.ndarray)))
    ctx.event('masked_constants', len(mask))
    ctx.nontrivial(bs > 1 and (len(mask) + sum(1 for b in batched if not b)) >= 1)


def gen_ext_model(rng):
    family = str(rng.choice(['echo', 'echo_sep', 'printf', 'printf_sep', 'sh']))
    vectorised = bool(rng.random() < 0.8)
    n_par = int(rng.integers(1, 4))
    parents = []
    for _ in range(n_par):
        u = rng.random()
        if vectorised and u < 0.55:
            parents.append({'role': 'batch', 'src': str(rng.choice(['int', 'float', 'ivec', 'vec'] if family != 'sh' else ['int', 'ivec']))})
        else:
            t = str(rng.choice(['int', 'float', 'strint', 'ivec', 'vec'] if family != 'sh' else ['int', 'strint', 'ivec']))
            parents.append({'role': 'const', 't': t, 'v': _gen_value(rng, t)})
    if vectorised and not any(p['role'] == 'batch' for p in parents):
        parents[0] = {'role': 'batch', 'src': 'int'}
    fields = []
    for j, p in enumerate(parents):
        t = p.get('t') or p['src']
        fields.append(_field_for(rng, 'pos', j, t, family != 'sh'))
    order = list(rng.permutation(len(fields)))
    fields = [fields[i] for i in order]
    while len(fields) < 2:
        fields.append({'f': 'lit', 'v': int(rng.integers(0, 100))})
    if family == 'sh' and len(fields) < 3:
        fields.append({'f': 'lit', 'v': int(rng.integers(0, 100))})
    if rng.random() < 0.5:
        fields.append({'f': 'meta', 'key': 'batch_index', 'idx': None, 'spec': None})
    if not vectorised and rng.random() < 0.5:
        fields.append({'f': 'kw', 'key': 'batch_size', 'idx': None, 'spec': None})
    extra = {}
    if rng.random() < 0.5:
        extra['rate'] = {'t': 'int', 'v': _gen_value(rng, 'int')}
        fields.append({'f': 'kw', 'key': 'rate', 'idx': None, 'spec': None})
    fields.insert(int(rng.integers(2 if family == 'sh' else 0, len(fields) + 1)), {'f': 'seed'})
    int_only = all((p.get('t') or p['src']) in ('int', 'strint', 'ivec') for p in parents)
    return {'kind': 'ext_model', 'family': family, 'parents': parents, 'fields': fields, 'kw': extra,
            'vectorised': vectorised, 'bs': int(rng.choice([2, 3, 5, 8])) if vectorised else 1,
            'dtype': _pick_ext_dtype(rng, int_only, True), 'spaces': int(rng.integers(1, 3)),
            'sep_explicit': bool(rng.random() < 0.5), 'seed': int(rng.integers(0, 2 ** 31 - 1))}


def _src_int(x):
    return np.floor(x * 199 - 99).astype(int)


def _src_float(x):
    return (x - 0.5) * 20.0


def run_ext_model(ctx, case):
    import elfi
    bs = case['bs']
    op, template, sep = _make_ext_op(elfi, case)
    kwx = {k: _realise(x['t'], x['v']) for k, x in case['kw'].items()}
    fn = functools.partial(op, **kwx) if kwx else op
    inner = Boundary(fn)
    m = elfi.ElfiModel(name='c18x')
    refs, mask = [], []
    for j, p in enumerate(case['parents']):
        name = 'in%d' % j
        if p['role'] == 'batch':
            src = p['src']
            if src in ('int', 'float'):
                base = elfi.Prior('uniform', 0, 1, model=m, name=name + 'b')
            else:
                base = elfi.Prior('uniform', 0, 1, size=3, model=m, name=name + 'b')
            refs.append(elfi.Operation(_src_int if src in ('int', 'ivec') else _src_float, base, model=m, name=name))
        else:
            val = _realise(p['t'], p['v'])
            if isinstance(val, np.ndarray):
                mask.append(j)
            refs.append(elfi.Constant(val, model=m, name=name))
    node_fn = elfi.tools.vectorize(inner, constants=mask or None) if case['vectorised'] else inner
    sim = elfi.Simulator(node_fn, *refs, model=m, name='sim')
    sim.uses_meta = True
    bnames = ['in%d' % j for j, p in enumerate(case['parents']) if p['role'] == 'batch']

    def generate(k):
        _perturb_globals(case['seed'] + k)
        del inner.calls[:]
        out = m.generate(bs, outputs=bnames + ['sim'], seed=case['seed'] % (2 ** 31))
        ctx.event('ext_calls', len(inner.calls))
        return out, list(inner.calls)

    out, calls = generate(1)
    ctx.event('ext_model_runs')
    where = 'external command in a model run (batch_size=%d, %s)' % (bs, 'vectorised' if case['vectorised'] else 'plain')
    sim_out = np.asarray(out['sim'])
    rows = sim_out if case['vectorised'] else sim_out.reshape(1, -1)
    if rows.ndim != 2 or len(rows) != bs:
        raise Violation('ext-vec-shape', '%s: output shape %s' % (where, sim_out.shape), {'template': template})
    if len(calls) != bs:
        raise Violation('ext-model-calls', '%s: %d output rows but the command ran %d times' % (where, bs, len(calls)))
    seeds = []
    for i in range(bs):
        row = []
        for j, p in enumerate(case['parents']):
            if p['role'] == 'batch':
                row.append(out['in%d' % j][i])
            else:
                row.append(_realise(p['t'], p['v']))
        c = calls[i]
        kws = dict(kwx)
        kws['batch_size'] = bs
        tokens = expected_tokens(case['family'], case['fields'], row, kws, c.get('meta', {}))
        seeds.append(_check_ext_result(ctx, rows[i], tokens, case['dtype'], '%s, row %d' % (where, i), template))
    _count_fields(ctx, case)
    if len(set(seeds)) != bs:
        raise Violation('ext-seed-rows-equal', '%s: seed does not differ between rows of the batch: %s' % (where, seeds),
                        {'template': template, 'seeds': seeds})
    if bs > 1:
        ctx.event('ext_seed_rows_distinct', bs)
    # the same seeded run again: equal generator states must give equal seeds
    out2, calls2 = generate(2)
    rows2 = np.asarray(out2['sim']) if case['vectorised'] else np.asarray(out2['sim']).reshape(1, -1)
    for i in range(bs):
        st1, st2 = calls[i].get('rs_state'), calls2[i].get('rs_state')
        eq_state = st1 is not None and st2 is not None and st1[0] == st2[0] and np.array_equal(st1[1], st2[1]) and st1[2:] == st2[2:]
        if eq_state and calls[i].get('meta') == calls2[i].get('meta'):
            if not np.array_equal(rows[i], rows2[i]):
                raise Violation('ext-seed-not-deterministic', '%s: equal generator state and row, different output' % where,
                                {'first': rows[i], 'second': rows2[i], 'template': template})
            ctx.event('ext_seed_equal_state_pairs')
    # replay outside the model: the external operation alone with a generator in the recorded state
    for i in range(bs):
        c = calls[i]
        if c.get('rs_state') is None:
            continue
        r = np.random.RandomState(0)
        r.set_state(c['rs_state'])
        kk = {k: x for k, x in c['kwargs'].items() if k not in ('random_state', 'meta')}
        kk['random_state'] = r
        if 'meta' in c:
            kk['meta'] = dict(c['meta'])
        _perturb_globals(case['seed'] + 7 + i)
        res = fn(*c['args'], **kk)
        ctx.event('ext_calls')
        if not np.array_equal(np.asarray(res), rows[i]):
            raise Violation('ext-seed-not-deterministic', '%s: replay of row %d with a generator in the recorded state gives another output' % (where, i),
                            {'in_model': rows[i], 'replayed': res, 'template': template})
        ctx.event('ext_model_seed_replayed')
    n_const = sum(1 for p in case['parents'] if p['role'] == 'const')
    ctx.event('auto_constants', n_const - len(mask))
    ctx.event('masked_constants', len(mask))
    ctx.nontrivial(bs > 1 and n_const >= 1)


# ----------------------------------------------------------------------------------------

KINDS = ['vec'] * 9 + ['vec_model'] * 3 + ['ext'] * 4 + ['ext_vec'] * 3 + ['ext_model'] * 2


def gen_cases(ctx):
    rng = ctx.rng
    for _ in range(ctx.ncases):
        kind = KINDS[int(rng.integers(len(KINDS)))]
        if kind == 'vec':
            yield gen_vec(rng)
        elif kind == 'vec_model':
            yield gen_vec_model(rng)
        elif kind == 'ext_model':
            yield gen_ext_model(rng)
        else:
            yield gen_ext(rng, kind)


def run_case(ctx, case):
    kind = case['kind']
    ctx.event('cases_' + kind)
    if kind == 'vec':
        run_vec(ctx, case)
    elif kind == 'vec_model':
        run_vec_model(ctx, case)
    elif kind == 'ext':
        run_ext(ctx, case)
    elif kind == 'ext_vec':
        run_ext_vec(ctx, case)
    else:
        run_ext_model(ctx, case)
