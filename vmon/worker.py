import sys
from vmon.core import worker_main
if __name__ == '__main__':
    sys.exit(worker_main(sys.argv[1:]))
