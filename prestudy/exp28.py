import compat, numpy as np, elfi, warnings, sys
from functools import partial
compat.install()
warnings.simplefilter('ignore')
import logging; logging.disable(logging.WARNING)
import elfi.examples.ma2 as ma2
from elfi.methods.bsl import pdf_methods as pm
import elfi.methods.inference.bsl as bslmod
LOG=[]
def lik(*a, **k):
    v = pm.gaussian_syn_likelihood(*a, **k).item(); LOG.append(('lik', v)); return v
class RecRS(np.random.RandomState):
    def uniform(self, *a, **k):
        v = super().uniform(*a, **k); LOG.append(('u', v)); return v
m = ma2.get_model(seed_obs=1)
bounds = np.array([(-2.,2.),(-np.inf,1.)])
bsl = elfi.BSL(m, n_sim_round=40, feature_names=['S1','S2'], batch_size=40, seed=4, likelihood=partial(lik))
bsl.random_state = RecRS(4)
orig_prop = bsl._propagate_state
def prop():
    p = orig_prop(); LOG.append(('prop', p.copy().ravel())); return p
bsl._propagate_state = prop
res = bsl.sample(60, sigma_proposals=0.3*np.eye(2), params0=[0.6,0.2], bar=False, logit_transform_bound=bounds)
params = bsl.state['params']
# oracle
B = bslmod.BSL
def logJ(theta):
    tt = B._para_logit_transform(theta, bounds); h=1e-6; s=0
    for i in range(len(theta)):
        e=np.zeros(len(theta)); e[i]=h
        s += np.log((B._para_logit_back_transform(tt+e,bounds)[i]-B._para_logit_back_transform(tt-e,bounds)[i])/(2*h))
    return s
prior = bsl.prior
it = iter(LOG); cur=None; cur_lp=None; n=0; bad=0; steps=0
ev = list(LOG); i=0
# first lik is for params0
assert ev[0][0]=='lik'; cur=params[0].copy(); cur_lp = ev[0][1]+prior.logpdf(cur); i=1; n=1
while i < len(ev):
    assert ev[i][0]=='prop', ev[i]; p = ev[i][1]; i+=1
    lpz = prior.logpdf(p)
    if not np.isfinite(lpz):
        # rejected w/o simulating
        ok = np.array_equal(params[n], cur); 
        if not ok: bad+=1
        n+=1; continue
    assert ev[i][0]=='lik'; ll=ev[i][1]; i+=1
    assert ev[i][0]=='u'; u=ev[i][1]; i+=1
    ratio = np.exp(ll+lpz-cur_lp + logJ(p)-logJ(cur))
    exp_acc = u < min(1.0, ratio)
    got_acc = np.array_equal(params[n], p)
    if not got_acc: assert np.array_equal(params[n], cur)
    steps+=1
    if exp_acc != got_acc: bad+=1
    if got_acc: cur=p.copy(); cur_lp=ll+lpz
    n+=1
print('steps', steps, 'n', n, 'disagreements', bad)
