"""C09 - MCMC kernels implement their algorithm and never leave the target's support.

Monitors (DESIGN.md section 5 / C09):
 (1) trace monitor: `elfi.methods.mcmc.np` is replaced (for the duration of one call) by a proxy whose
     `random.RandomState` is a recording subclass; the target is wrapped and logs every evaluation.  An offline
     checker walks the chain against the *recorded* draws and target values.
 (2) independent replay: a 12-line random-walk Metropolis on RandomState(seed), compared bit-wise.  A mismatch
     counts only when (1) fails as well or the draw counts differ from one normal vector + one uniform per step.
 (3) both kernels: number of returned states, determinism in the seed (two runs, global numpy generator
     re-seeded differently in between), every returned state re-evaluated finite.
 (4) moments on Gaussian targets in whitened coordinates (means, variances, cross products), z-score from the
     effective sample size of each statistic's own series, threshold 6, confirmed on a second seed; in addition
     'pooled' NUTS cases (12 chains each) judge the per-type sum of z / sqrt(count) the same way, which resolves
     biases of a few per cent that no single chain can show.
"""
import math

import numpy as np

from vmon.core import Skip, Violation

PROPERTY = 'C09'
LEVEL = 'exploration'
TECHNIQUE = ('runtime monitoring: recording RandomState + wrapped log-target (trace monitor), independent Metropolis replay '
             '(reference model), re-evaluation / determinism / effective-sample-size z-score monitors on returned chains')
LEVEL_TEXT = ('Held on every generated chain: each Metropolis chain is walked offline against the draws and target values '
              'recorded during the real call and compared bit-wise with an independent replay; both kernels are checked for '
              'length, determinism, support and (Gaussian targets) moments. Exploration over targets x start x scales x '
              'warm-up x length x seed; the moment clause is a bounded statistical restatement (|z| <= 6, second seed).')
LEVEL_NOTE = ('trusts: numpy RandomState, the harness target family, FFT-based effective sample size; moments only judged on '
              'Gaussian targets; NUTS refusing to find a step size (ValueError/SystemExit documented in its source) is skipped')
RULE = ('cases = kernel (metropolis | nuts) x target family (gaussian 1-5 d correlated, two-component mixture, gaussian in a hard '
        'box / half-space with -inf or NaN outside, flat box, targets whose formula yields NaN beyond a sphere / plane) x '
        'return flavour (float, 0-d array, size-1 array) x start x proposal scales (tuned, tiny, huge, mixed) x warm-up x '
        'length x seed (NUTS: n_adapt incl. n_iter-1, max_depth, given/searched step size); distinct = hash of the case; '
        'non-trivial = chain with at least one accepted and one rejected proposal (NUTS: at least one iteration that moved and '
        'one that stayed or whose tree met a non-finite log-target)')
ASSUMPTIONS = ['elfi.methods.mcmc reaches numpy through its module global `np` (replaced by a recording proxy per call)',
               'moments judged on Gaussian targets only, |z| <= 6 with z from the monitored effective sample size, '
               'confirmed on a second independent seed',
               'an exact tie u == ratio (probability ~2^-53) is skipped: not observable']
CONFIG = {
    'quick': {'shards': 16, 'cases': 36, 'timeout': 600, 'floor': 120},
    'thorough': {'shards': 32, 'cases': 360, 'timeout': 3000, 'floor': 2300},
}
REQUIRED = ['halfnormal_moment_stats_nuts', 'halfnormal_moment_stats_metropolis', 'met_chains', 'met_steps_walked', 'met_accepts', 'met_rejects', 'met_rejects_nonfinite',
            'met_replay_compared', 'met_trace_ok', 'nuts_chains', 'states_reevaluated_metropolis',
            'states_reevaluated_nuts', 'determinism_pairs_metropolis', 'determinism_pairs_nuts',
            'moment_stats_metropolis', 'moment_stats_nuts', 'moment_pooled_cases', 'target_evals_nan', 'target_evals_neginf',
            'nuts_stepsize_searched', 'nuts_stepsize_given', 'nuts_iter_eq_adapt_plus_1', 'nuts_moments_without_adaptation', 'start_dtype_float32', 'start_dtype_int64', 'start_dtype_int32']

KINDS = ['met', 'met', 'met', 'nuts', 'met', 'metmom', 'met', 'nuts', 'met', 'nutsmom', 'nuts', 'met']
FAMILIES = ['gauss', 'mix', 'box', 'half', 'flatbox', 'nanball', 'nanhalf']
Z_MAX = 6.0
POOL_CHAINS, POOL_ITER = 12, 5000


# ---------------------------------------------------------------------------------------------------------
# target family (everything derived from the plain-data spec)
class Target:
    def __init__(self, spec):
        self.spec = spec
        d = self.d = int(spec['d'])
        rs = np.random.RandomState(int(spec['tseed']))
        A = rs.randn(d, d)
        s = float(spec.get('scale', 1.0))
        self.C = (A @ A.T + 0.5 * np.eye(d)) * s * s
        self.mu = rs.randn(d) * 2.0 * s
        self.P = np.linalg.inv(self.C)
        self.L = np.linalg.cholesky(self.C)
        self.sd = np.sqrt(np.diag(self.C))
        self.family = spec['family']
        self.outside = -np.inf if spec.get('outside', 'inf') == 'inf' else np.nan
        self.ret = spec.get('ret', 'float')
        self.lo = self.mu - rs.uniform(0.3, 2.0, d) * self.sd
        self.hi = self.mu + rs.uniform(0.3, 2.0, d) * self.sd
        a = rs.randn(d)
        self.a = a / np.linalg.norm(a)
        self.b = rs.uniform(0.1, 1.5) * math.sqrt(self.a @ self.C @ self.a)
        self.r2 = (rs.uniform(0.8, 2.5) * float(np.mean(self.sd))) ** 2
        self.delta = rs.randn(d) * 1.5 * self.sd
        self.w = rs.uniform(0.2, 0.8)

    def _g(self, r):
        return -0.5 * (r @ self.P @ r)

    def raw(self, x):
        x = np.asarray(x, dtype=float)
        f = self.family
        r = x - self.mu
        if f == 'gauss':
            return self._g(r)
        if f == 'mix':
            return np.logaddexp(math.log(self.w) + self._g(r - self.delta), math.log(1 - self.w) + self._g(r + self.delta))
        if f == 'box':
            return self._g(r) if bool(np.all((x > self.lo) & (x < self.hi))) else self.outside
        if f == 'flatbox':
            return 0.0 if bool(np.all((x > self.lo) & (x < self.hi))) else self.outside
        if f == 'half':
            return self._g(r) if bool(self.a @ r <= self.b) else self.outside
        with np.errstate(all='ignore'):
            if f == 'nanball':
                return self._g(r) + 0.5 * np.log(self.r2 - r @ r)
            if f == 'nanhalf':
                return self._g(r) + np.sqrt(self.b - self.a @ r)
        raise ValueError(f)

    def grad(self, x):
        x = np.asarray(x, dtype=float)
        f = self.family
        r = x - self.mu
        if f in ('gauss', 'box', 'half'):
            return -self.P @ r
        if f == 'flatbox':
            return np.zeros(self.d)
        with np.errstate(all='ignore'):
            if f == 'mix':
                l1 = math.log(self.w) + self._g(r - self.delta)
                l2 = math.log(1 - self.w) + self._g(r + self.delta)
                p1 = np.exp(l1 - np.logaddexp(l1, l2))
                return -(p1 * (self.P @ (r - self.delta)) + (1 - p1) * (self.P @ (r + self.delta)))
            if f == 'nanball':
                return -self.P @ r - r / (self.r2 - r @ r)
            if f == 'nanhalf':
                return -self.P @ r - self.a / (2.0 * np.sqrt(self.b - self.a @ r))
        raise ValueError(f)

    def wrap(self, v):
        if self.ret == 'arr0':
            return np.array(v, dtype=float)
        if self.ret == 'arr1':
            return np.array([v], dtype=float)
        return np.float64(v)

    def start(self, rng, spread):
        for _ in range(200):
            if self.family in ('box', 'flatbox') and rng.random() < 0.7:
                x = self.lo + (self.hi - self.lo) * rng.uniform(0.001, 0.999, self.d)
            else:
                x = self.mu + spread * (self.L @ rng.standard_normal(self.d))
            if math.isfinite(float(self.raw(x))):
                return x
        return self.mu.copy()


# ---------------------------------------------------------------------------------------------------------
# recording proxy for the module-global `np` of elfi.methods.mcmc
class _Proxy:
    def __init__(self, real, **over):
        self.__dict__['_real'] = real
        self.__dict__.update(over)

    def __getattr__(self, n):
        return getattr(self.__dict__['_real'], n)


class Recorder:
    def __init__(self):
        self.ev = []
        self.seeds = []

    def np_proxy(self):
        rec = self

        class RecRS(np.random.RandomState):
            """Records the outermost call of every draw method (numpy's own randn/rand delegate to
            standard_normal/random_sample on the same object; only the call made by elfi is logged)."""

            def __init__(self, seed=None):
                super().__init__(seed)
                self._depth = 0
                rec.seeds.append(seed)

            def _draw(self, tag, name, a, k):
                self._depth += 1
                try:
                    v = getattr(np.random.RandomState, name)(self, *a, **k)
                finally:
                    self._depth -= 1
                if self._depth == 0:
                    rec.ev.append((tag, np.array(v, copy=True)) if tag != 'other' else (tag, name))
                return v

            def randn(self, *a):
                return self._draw('z', 'randn', a, {})

            def standard_normal(self, *a, **k):
                return self._draw('z', 'standard_normal', a, k)

            def rand(self, *a):
                return self._draw('u', 'rand', a, {})

            def random_sample(self, *a, **k):
                return self._draw('u', 'random_sample', a, k)

            def exponential(self, *a, **k):
                return self._draw('e', 'exponential', a, k)

            def standard_exponential(self, *a, **k):
                return self._draw('e', 'standard_exponential', a, k)

            def normal(self, *a, **k):
                return self._draw('other', 'normal', a, k)

            def uniform(self, *a, **k):
                return self._draw('other', 'uniform', a, k)

            def multivariate_normal(self, *a, **k):
                return self._draw('other', 'multivariate_normal', a, k)

            def randint(self, *a, **k):
                return self._draw('other', 'randint', a, k)

            def choice(self, *a, **k):
                return self._draw('other', 'choice', a, k)

        return _Proxy(np, random=_Proxy(np.random, RandomState=RecRS))


def _val(v):
    return float(np.asarray(v, dtype=float).reshape(-1)[0])


def call_kernel(kind, tgt, kw, record=False):
    """Run the real kernel; returns (chain, recorder, target log)."""
    import elfi.methods.mcmc as mc
    tlog = []

    def target(x):
        v = tgt.raw(x)
        if record:
            tlog.append((np.array(x, dtype=float, copy=True), float(v)))
        return tgt.wrap(v)

    rec = Recorder()
    saved = mc.np
    if record:
        mc.np = rec.np_proxy()
    try:
        try:
            if kind == 'met':
                out = mc.metropolis(kw['n'], np.array(kw['x0'], dtype=kw.get('x0_dtype', 'float64')), target, np.array(kw['sigma'], dtype=float),
                                    warmup=kw['warmup'], seed=kw['seed'])
            else:
                out = mc.nuts(kw['n'], np.array(kw['x0'], dtype=kw.get('x0_dtype', 'float64')), target, tgt.grad, n_adapt=kw['n_adapt'],
                              target_prob=kw['target_prob'], max_depth=kw['max_depth'], seed=kw['seed'],
                              stepsize=kw['stepsize'])
        except SystemExit as e:                      # documented refusal: step size outside [0, 1e7]
            raise Skip('nuts: invalid stepsize (SystemExit) ' + str(e)[:40])
        except ValueError as e:
            if 'Cannot find acceptable stepsize' in str(e):
                raise Skip('nuts: no acceptable stepsize found')
            raise
    finally:
        mc.np = saved
    return out, rec, tlog


# ---------------------------------------------------------------------------------------------------------
# monitor (1): offline walk of the recorded trace
def trace_walk(ctx, rec, tlog, kw, chain):
    """Returns None when the chain follows the rule on the recorded draws, else (key, msg, witness)."""
    x0 = np.array(kw['x0'], dtype=float)
    sigma = np.array(kw['sigma'], dtype=float)
    n, warmup, seed = kw['n'], kw['warmup'], kw['seed']
    N = n + warmup
    Z = [e[1] for e in rec.ev if e[0] == 'z']
    U = [e[1] for e in rec.ev if e[0] == 'u']
    other = [e for e in rec.ev if e[0] not in ('z', 'u')]
    counts = {'normal_draws': len(Z), 'uniform_draws': len(U), 'other_draws': len(other), 'steps': N, 'seeds': rec.seeds}
    if rec.seeds != [seed]:
        return ('met-draw-count', 'RandomState constructed with %r, requested seed %r' % (rec.seeds, seed), counts)
    if len(Z) != N or len(U) != N or other or any(z.shape != x0.shape for z in Z) or any(u.ndim != 0 for u in U):
        return ('met-draw-count', 'draws differ from one normal vector + one uniform per step: %s' % counts, counts)
    if not tlog or not np.array_equal(tlog[0][0], x0):
        return ('met-proposal', 'the first target evaluation is not at the starting point', counts)
    evals = tlog[1:]
    cur, tc = x0.copy(), tlog[0][1]
    alt = None                     # the state the opposite decision at the previous step would have given
    p = 0
    states = np.empty((N,) + x0.shape)
    acc = rej = rej_nf = 0
    for k in range(N):
        prop = cur + sigma * Z[k]
        q = p
        while q < len(evals) and not np.array_equal(evals[q][0], prop):
            q += 1
        if q == len(evals):
            nxt = evals[p][0] if p < len(evals) else None
            if alt is not None and nxt is not None and np.array_equal(nxt, alt + sigma * Z[k]):
                return ('met-acceptance', 'step %d: the chain continued from the state that the rule (accept iff u < ratio and '
                        'finite log-target) does not give at step %d' % (k, k - 1),
                        {'step': k - 1, 'u': float(U[k - 1]), 'continued_from': alt, 'rule_state': cur})
            return ('met-proposal', 'step %d: no target evaluation at previous + sigma * z for the recorded normal draw' % k,
                    {'step': k, 'previous': cur, 'z': Z[k], 'sigma': sigma, 'expected_proposal': prop, 'next_evaluated': nxt})
        tp = evals[q][1]
        p = q + 1
        fin = math.isfinite(tp)
        with np.errstate(all='ignore'):
            ratio = float(np.exp(tp - tc)) if fin else 0.0
        u = float(U[k])
        if fin and u == ratio:
            raise Skip('exact tie u == ratio')
        if fin and u < ratio:
            alt = cur
            cur, tc = prop, tp
            acc += 1
        else:
            alt = prop
            rej += 1
            rej_nf += (not fin)
        states[k] = cur
    ctx.event('met_steps_walked', N)
    ctx.event('met_accepts', acc)
    ctx.event('met_rejects', rej)
    ctx.event('met_rejects_nonfinite', rej_nf)
    ctx.nontrivial(acc >= 1 and rej >= 1)
    exp = states[warmup:]
    if chain.shape != exp.shape:
        return ('met-length', 'returned %s states, requested n_samples=%d (warmup=%d)' % (chain.shape, n, warmup), counts)
    if not np.array_equal(chain, exp):
        i = int(np.nonzero(np.any((chain != exp).reshape(len(exp), -1), axis=1))[0][0])
        k = warmup + i
        prev = states[k - 1] if k > 0 else x0
        prop = prev + sigma * Z[k]
        w = {'returned_index': i, 'step': k, 'returned': chain[i], 'by_rule': exp[i], 'previous': prev, 'proposal': prop,
             'u': float(U[k]), 'warmup': warmup}
        allst = np.vstack([x0[None], states])          # allst[j] = state after j steps
        for shift in (-2, -1, 1, 2):
            lo = warmup + 1 + shift
            if lo >= 0 and lo + n <= len(allst) and np.array_equal(chain, allst[lo:lo + n]) and not np.array_equal(allst[lo:lo + n], exp):
                return ('met-warmup-slice', 'the returned states are states %d..%d of the chain instead of warmup+1..warmup+n '
                        '(warmup=%d, n=%d)' % (lo, lo + n - 1, warmup, n), w)
        if np.array_equal(chain[i], prev) or np.array_equal(chain[i], prop):
            return ('met-acceptance', 'returned state %d (step %d) is the opposite of the rule "accept iff u < ratio and the '
                    'proposed log-target is finite"' % (i, k), w)
        if any(np.array_equal(chain[i], s) for s in states) or np.array_equal(chain[i], x0):
            return ('met-warmup-slice', 'returned state %d is a state of the chain but not state warmup+%d+1' % (i, i), w)
        return ('met-transition', 'returned state %d is neither the previous state nor previous + sigma * z' % i, w)
    return None


# monitor (2): independent replay
def replay_metropolis(tgt, kw):
    x0 = np.array(kw['x0'], dtype=float)
    sigma = np.array(kw['sigma'], dtype=float)
    rs = np.random.RandomState(kw['seed'])
    cur, tc = x0.copy(), float(tgt.raw(x0))
    out = np.empty((kw['n'] + kw['warmup'],) + x0.shape)
    with np.errstate(all='ignore'):
        for k in range(len(out)):
            prop = cur + sigma * rs.randn(*x0.shape)
            tp = float(tgt.raw(prop))
            u = rs.rand()
            if np.isfinite(tp) and u < np.exp(tp - tc):
                cur, tc = prop, tp
            out[k] = cur
    return out[kw['warmup']:]


# monitor (3)
def check_common(ctx, kind, tgt, kw, chain, kname):
    x0 = np.array(kw['x0'], dtype=float)
    if not isinstance(chain, np.ndarray) or chain.shape != (kw['n'],) + x0.shape:
        raise Violation(kname + '-length', '%s returned shape %s, requested %d states of shape %s' % (
            kname, getattr(chain, 'shape', None), kw['n'], x0.shape), {'kw': kw})
    nan = ninf = 0
    for i, s in enumerate(chain):
        v = float(tgt.raw(s))
        if not math.isfinite(v):
            raise Violation(kname + '-invalid-state', '%s returned state %d with log-target %r (started from a valid point)' % (
                kname, i, v), {'state': s, 'index': i, 'log_target': v})
    ctx.event('states_reevaluated_' + kname, len(chain))
    # determinism: same arguments again, with the global generator in another state
    np.random.seed((kw['seed'] * 31 + 7) % (2 ** 32))
    again, _, _ = call_kernel(kind, tgt, kw)
    if not (again.shape == chain.shape and np.array_equal(again, chain)):
        raise Violation(kname + '-nondeterministic', 'two calls of %s with identical arguments and seed differ' % kname,
                        {'first_head': chain[:3], 'second_head': again[:3]})
    ctx.event('determinism_pairs_' + kname)
    return nan, ninf


# monitor (4)
def ess(x):
    x = x - x.mean()
    n = len(x)
    if not np.any(x):
        return float(n)
    f = np.fft.rfft(x, 2 * n)
    ac = np.fft.irfft(f * np.conj(f))[:n] / np.arange(n, 0, -1)
    ac = ac / ac[0]
    low = np.nonzero(ac[1:] < 0.05)[0]
    k = int(low[0]) + 1 if len(low) else n
    return n / (1.0 + 2.0 * float(ac[1:k].sum()))


def moment_z(tgt, chain):
    """z-scores of means, variances and cross products in whitened coordinates (all N(0,1)-moments)."""
    y = np.linalg.solve(tgt.L, (chain - tgt.mu).T).T
    d = y.shape[1]
    out = {}
    for j in range(d):
        out['mean%d' % j] = (y[:, j].mean() * math.sqrt(max(ess(y[:, j]), 5.0)), ess(y[:, j]))
        s = y[:, j] ** 2
        out['var%d' % j] = ((s.mean() - 1.0) / math.sqrt(2.0 / max(ess(s), 5.0)), ess(s))
        for i in range(j):
            c = y[:, i] * y[:, j]
            out['cov%d_%d' % (i, j)] = (c.mean() * math.sqrt(max(ess(c), 5.0)), ess(c))
    return out


def check_moments(ctx, kind, tgt, kw, chain, kname):
    drop = kw.get('n_adapt') or 0 if kind == 'nuts' else 0
    zs = moment_z(tgt, chain[drop:])
    ctx.event('moment_stats_' + kname, len(zs))
    for name, (z, e) in zs.items():
        a = abs(z)
        ctx.event('moment_absz_ge3', a >= 3)
        ctx.event('moment_absz_ge4', a >= 4)
        ctx.event('moment_absz_ge5', a >= 5)
    big = {k: v for k, v in zs.items() if not abs(v[0]) <= Z_MAX}
    if not big:
        return
    kw2 = dict(kw, seed=(kw['seed'] + 1000003) % (2 ** 32))
    chain2, _, _ = call_kernel(kind, tgt, kw2)
    zs2 = moment_z(tgt, chain2[drop:])
    ctx.event('moment_second_seed_runs')
    conf = {k: (v[0], zs2[k][0]) for k, v in big.items()
            if not abs(zs2[k][0]) <= Z_MAX and (np.sign(zs2[k][0]) == np.sign(v[0]) or np.isnan(v[0]))}
    if conf:
        raise Violation(kname + '-moments', '%s on a %d-d Gaussian: whitened moment statistics off by |z| > %g on two '
                        'independent seeds: %s' % (kname, tgt.d, Z_MAX, {k: (round(a, 1), round(b, 1)) for k, (a, b) in conf.items()}),
                        {'z_first_second': conf, 'ess': {k: zs[k][1] for k in conf}, 'seeds': [kw['seed'], kw2['seed']]})
    ctx.event('moment_outlier_unconfirmed')


# ---------------------------------------------------------------------------------------------------------
def _seed(rng):
    return int(rng.choice([0, 1, int(rng.integers(0, 2 ** 32 - 1)), int(rng.integers(0, 1000))]))


def _tspec(rng, family=None, moments=False):
    d = int(rng.integers(1, 6))
    fam = family or str(rng.choice(FAMILIES))
    spec = {'family': fam, 'd': d, 'tseed': int(rng.integers(0, 2 ** 31 - 1)),
            'scale': float(rng.choice([1.0, 1.0, 0.01, 30.0])),
            'outside': str(rng.choice(['inf', 'nan'])),
            'ret': 'float' if moments else str(rng.choice(['float', 'float', 'arr0', 'arr1']))}
    return spec


def _start_dtype(rng, tgt, x0):
    """A start point is an input: users pass integer arrays (np.array([0, 1])) and float32 arrays as well as float64.
    Returns (x0 exactly representable in the dtype, dtype name); integer starts only where the rounded point is valid."""
    r = rng.random()
    if r < 0.12:
        xi = np.round(x0)
        if math.isfinite(float(tgt.raw(xi))) and float(tgt.raw(xi)) > -1e6:
            return xi, str(rng.choice(['int64', 'int32']))
    elif r < 0.24:
        xf = np.asarray(x0, dtype=np.float32).astype(float)
        if math.isfinite(float(tgt.raw(xf))):
            return xf, 'float32'
    return x0, 'float64'


def gen_met(rng, moments):
    spec = _tspec(rng, 'gauss' if moments else None, moments)
    tgt = Target(spec)
    d = tgt.d
    base = 2.4 / math.sqrt(d) * tgt.sd
    if moments:
        sigma = base * rng.uniform(0.6, 1.4)
        n, warmup = int(rng.integers(12000, 20001)), 500
        x0 = tgt.mu + 0.1 * (tgt.L @ rng.standard_normal(d))
    else:
        mode = str(rng.choice(['tuned', 'tuned', 'tuned', 'wide', 'tiny', 'huge', 'mixed']))
        if mode == 'tuned':
            sigma = base * rng.uniform(0.3, 2.0)
        elif mode == 'wide':
            sigma = base * rng.uniform(2.0, 8.0)
        elif mode == 'tiny':
            sigma = base * float(rng.choice([1e-3, 1e-6, 1e-12]))
        elif mode == 'huge':
            sigma = base * float(rng.choice([1e2, 1e4]))
        else:
            sigma = tgt.sd * np.exp(rng.uniform(math.log(1e-3), math.log(1e2), d))
        n = int(round(math.exp(rng.uniform(0, math.log(2000)))))
        warmup = int(rng.choice([0, 0, 1, 2, int(rng.integers(0, n + 1)), n, min(2 * n, 2000), int(rng.integers(0, 300))]))
        x0 = tgt.start(rng, float(rng.choice([0.1, 1.0, 2.5])))
    x0, x0_dtype = _start_dtype(rng, tgt, x0)
    return {'kind': 'metmom' if moments else 'met', 'target': spec,
            'kw': {'n': n, 'warmup': warmup, 'seed': _seed(rng), 'x0': [float(v) for v in x0], 'x0_dtype': x0_dtype,
                   'sigma': [float(v) for v in sigma]}}


def gen_nuts(rng, moments):
    spec = _tspec(rng, 'gauss' if moments else None, moments)
    noadapt = bool(moments and rng.random() < 0.3)
    if noadapt:
        spec['scale'] = float(rng.choice([0.01, 0.003, 0.1, 30.0]))    # targets whose scale is not of order one
    tgt = Target(spec)
    d = tgt.d
    if moments:
        n = int(rng.integers(3000, 5001))
        n_adapt = 500
        x0 = tgt.mu + 0.1 * (tgt.L @ rng.standard_normal(d))
        max_depth = int(rng.choice([5, 5, 4, 6, 7]))
        stepsize = None if rng.random() < 0.6 else float(np.min(tgt.sd) * rng.uniform(0.1, 1.0))
        target_prob = float(rng.choice([0.6, 0.6, 0.5, 0.8]))
        if noadapt:
            # warm-up length 0 with a step size chosen by the user (a fraction of the narrowest direction of the target):
            # nothing is adapted, the given step size must be the one that is used
            n_adapt = 0
            stepsize = float(math.sqrt(np.linalg.eigvalsh(tgt.C)[0]) * rng.uniform(0.3, 0.7))
    else:
        n = int(rng.choice([1, 2, 3, int(round(math.exp(rng.uniform(0, math.log(200))))), int(rng.integers(4, 120))]))
        n_adapt = rng.choice(['none', '0', 'n-1', 'n', 'third', 'more', 'rand'])
        n_adapt = {'none': None, '0': 0, 'n-1': max(n - 1, 0), 'n': n, 'third': n // 3, 'more': n + 5,
                   'rand': int(rng.integers(0, n + 1))}[str(n_adapt)]
        x0 = tgt.start(rng, float(rng.choice([0.1, 1.0, 2.5])))
        max_depth = int(rng.choice([0, 1, 2, 3, 5, 5, 7]))
        stepsize = None if rng.random() < 0.5 else float(np.min(tgt.sd) * math.exp(rng.uniform(math.log(0.02), math.log(3.0))))
        target_prob = float(rng.choice([0.6, 0.6, 0.45, 0.8, 0.9]))
    x0, x0_dtype = _start_dtype(rng, tgt, x0)
    return {'kind': 'nutsmom' if moments else 'nuts', 'target': spec,
            'kw': {'n': n, 'n_adapt': n_adapt, 'max_depth': max_depth, 'stepsize': stepsize, 'target_prob': target_prob,
                   'seed': _seed(rng), 'x0': [float(v) for v in x0], 'x0_dtype': x0_dtype}}


def gen_nutspool(rng):
    """One case = POOL_CHAINS NUTS chains on different Gaussians; the whitened statistics are pooled per type."""
    chains = []
    for _ in range(POOL_CHAINS):
        c = gen_nuts(rng, True)
        c['kw'].update(n=POOL_ITER, n_adapt=500, stepsize=None, max_depth=int(rng.choice([2, 3, 5, 7])),
                       target_prob=float(rng.choice([0.6, 0.8, 0.9])))
        chains.append({'target': c['target'], 'kw': c['kw']})
    return {'kind': 'nutspool', 'chains': chains}


def gen_halfmom(rng, kernel):
    d = int(rng.integers(1, 3))
    return {'kind': 'halfmom', 'kernel': kernel, 'sd': [float(x) for x in rng.choice([0.5, 1.0, 3.0], size=d)],
            'outside': str(rng.choice(['nan', 'neginf'])), 'n': 4000, 'n_adapt': 500, 'seed': _seed(rng),
            'x0': [float(x) for x in rng.uniform(0.3, 1.5, size=d)]}


def gen_cases(ctx):
    rng = ctx.rng
    for i in range(ctx.ncases):
        if i % 18 == 11:
            # a standard target with a hard support boundary and known moments: independent half-normals
            yield gen_halfmom(rng, 'nuts' if (i // 18 + ctx.shard) % 2 == 0 else 'met')
            continue
        kind = KINDS[(i + ctx.shard) % len(KINDS)]
        if i % 36 == 5:
            yield gen_nutspool(rng)
            continue
        if kind in ('met', 'metmom'):
            yield gen_met(rng, kind == 'metmom')
        else:
            yield gen_nuts(rng, kind == 'nutsmom')


# ---------------------------------------------------------------------------------------------------------
def pooled_z(ctx, case, shift):
    acc = {}
    for ch in case['chains']:
        tgt = Target(ch['target'])
        kw = dict(ch['kw'], seed=(ch['kw']['seed'] + shift) % (2 ** 32))
        chain, _, _ = call_kernel('nuts', tgt, kw)
        x0 = np.array(kw['x0'], dtype=float)
        if not isinstance(chain, np.ndarray) or chain.shape != (kw['n'],) + x0.shape:
            raise Violation('nuts-length', 'nuts returned shape %s, requested %d states' % (getattr(chain, 'shape', None), kw['n']), {'kw': kw})
        if shift == 0:
            full = np.vstack([x0[None], chain])
            moved = np.any(full[1:] != full[:-1], axis=1)
            ctx.nontrivial(bool(moved.any()) and bool((~moved).any()))
            ctx.event('nuts_chains')
            ctx.event('nuts_stepsize_searched')
        for name, (z, e) in moment_z(tgt, chain[kw['n_adapt']:]).items():
            acc.setdefault(name[:3], []).append(z)
    return {k: (float(np.sum(v)) / math.sqrt(len(v)), len(v)) for k, v in acc.items()}


def run_pool(ctx, case):
    """Small systematic biases (a few per cent of a variance) are invisible in one chain; pooled over the chains of the
    case each statistic type (means / variances / cross products) is again ~N(0,1) under a correct kernel."""
    first = pooled_z(ctx, case, 0)
    ctx.event('moment_pooled_cases')
    ctx.event('moment_pooled_stats', sum(n for _, n in first.values()))
    for k, (z, n) in first.items():
        ctx.event('moment_pooled_absz_ge3', abs(z) >= 3)
        ctx.event('moment_pooled_absz_ge4', abs(z) >= 4)
        ctx.event('moment_pooled_absz_ge5', abs(z) >= 5)
    big = {k: v for k, v in first.items() if not abs(v[0]) <= Z_MAX}
    if not big:
        return
    second = pooled_z(ctx, case, 1000003)
    ctx.event('moment_second_seed_runs')
    conf = {k: (v[0], second[k][0], v[1]) for k, v in big.items()
            if not abs(second[k][0]) <= Z_MAX and (np.sign(second[k][0]) == np.sign(v[0]) or np.isnan(v[0]))}
    if conf:
        raise Violation('nuts-moments', 'nuts on %d Gaussian targets: pooled whitened %s statistics off by |z| > %g on two independent '
                        'sets of seeds: %s' % (len(case['chains']), '/'.join(sorted(conf)), Z_MAX,
                                               {k: (round(a, 1), round(b, 1)) for k, (a, b, _) in conf.items()}),
                        {'pooled_z_first_second_count': conf})
    ctx.event('moment_outlier_unconfirmed')


def _half_chain(case, seed):
    import elfi.methods.mcmc as mc
    sd = np.array(case['sd'], dtype=float)
    nan_outside = case['outside'] == 'nan'

    def target(x):
        x = np.asarray(x, dtype=float)
        with np.errstate(all='ignore'):
            if nan_outside:
                return float(np.sum(-0.5 * (x / sd) ** 2 + 0.0 * np.log(x)))       # log of a negative number: NaN beyond the boundary
            return float(np.sum(-0.5 * (x / sd) ** 2)) if np.all(x > 0) else -np.inf

    def grad(x):
        x = np.asarray(x, dtype=float)
        with np.errstate(all='ignore'):
            return -x / sd ** 2 + (0.0 * np.log(x) if nan_outside else 0.0)          # NaN gradient beyond the boundary in the NaN flavour

    x0 = np.array(case['x0'], dtype=float)
    try:
        if case['kernel'] == 'nuts':
            ch = mc.nuts(case['n'], x0, target, grad, n_adapt=case['n_adapt'], seed=seed)
            return ch[case['n_adapt']:]
        return mc.metropolis(case['n'], x0, target, 1.2 * sd, warmup=case['n_adapt'], seed=seed)
    except ValueError as e:
        if 'Cannot find acceptable stepsize' in str(e):
            raise Skip('nuts: no acceptable stepsize found')
        raise


def _half_z(case, ch):
    sd = np.array(case['sd'], dtype=float)
    out = {}
    for j in range(ch.shape[1]):
        y = ch[:, j] / sd[j]
        for name, series, expect in (('mean%d' % j, y, math.sqrt(2.0 / math.pi)), ('sq%d' % j, y ** 2, 1.0)):
            v = float(np.var(series))
            e = max(ess(series), 5.0)
            out[name] = float('inf') if v == 0.0 else (float(series.mean()) - expect) / math.sqrt(v / e)
    return out


def run_halfmom(ctx, case):
    """Moments on a standard target with a hard boundary (independent half-normals, NaN or -inf outside)."""
    kname = 'nuts' if case['kernel'] == 'nuts' else 'metropolis'
    ch = _half_chain(case, case['seed'])
    zs = _half_z(case, ch)
    ctx.event('halfnormal_moment_stats_' + kname, len(zs))
    ctx.nontrivial(len(np.unique(ch[:, 0])) > 1)
    big = {k: v for k, v in zs.items() if not abs(v) <= Z_MAX}
    if not big:
        return
    ch2 = _half_chain(case, (case['seed'] + 1000003) % (2 ** 32))
    zs2 = _half_z(case, ch2)
    conf = {k: (v, zs2[k]) for k, v in big.items() if not abs(zs2[k]) <= Z_MAX and np.sign(zs2[k]) == np.sign(v)}
    if conf:
        raise Violation(kname + '-moments', '%s on independent half-normals (%s outside the support): moment statistics off by |z| > %g on two '
                        'independent seeds: %s; distinct states after warm-up: %d of %d' % (
                            kname, case['outside'], Z_MAX, {k: (round(a, 1), round(b, 1)) for k, (a, b) in conf.items()},
                            len(np.unique(ch[:, 0])), len(ch)), {'z_first_second': conf})
    ctx.event('moment_outlier_unconfirmed')


def run_case(ctx, case):
    if case['kind'] == 'nutspool':
        return run_pool(ctx, case)
    if case['kind'] == 'halfmom':
        return run_halfmom(ctx, case)
    tgt = Target(case['target'])
    kw = case['kw']
    kind = 'met' if case['kind'] in ('met', 'metmom') else 'nuts'
    kname = 'metropolis' if kind == 'met' else 'nuts'
    if not math.isfinite(float(tgt.raw(kw['x0']))):
        raise Skip('starting point outside the support')
    chain, rec, tlog = call_kernel(kind, tgt, kw, record=True)
    ctx.event('target_evals_nan', sum(1 for _, v in tlog if v != v))
    ctx.event('target_evals_neginf', sum(1 for _, v in tlog if v == -np.inf))
    ctx.distinct('kernel_family', '%s|%s|%s|%s' % (kname, tgt.family, tgt.ret, case['target']['outside']))

    if kind == 'met':
        ctx.event('met_chains')
        bad = trace_walk(ctx, rec, tlog, kw, chain)
        rep = replay_metropolis(tgt, kw)
        equal = isinstance(chain, np.ndarray) and chain.shape == rep.shape and np.array_equal(chain, rep)
        ctx.event('met_replay_compared')
        if equal:
            ctx.event('met_replay_bitwise_equal')
            if bad is None:
                ctx.event('met_trace_ok')
            else:
                ctx.event('met_trace_disagrees_but_replay_equal')
        elif bad is not None:
            raise Violation(bad[0], 'metropolis: ' + bad[1] + ' (and the chain differs from the independent replay on '
                            'RandomState(seed))', bad[2])
        else:
            # the chain follows the rule on its own recorded draws, one normal vector + one uniform per step, right
            # seed: a legitimate re-ordering of the stream, not an alarm
            ctx.event('met_trace_ok')
            ctx.event('met_stream_reordered')
    else:
        ctx.event('nuts_chains')
        ctx.event('nuts_stepsize_given' if kw['stepsize'] is not None else 'nuts_stepsize_searched')
        if case['kind'] == 'nutsmom' and kw['n_adapt'] == 0:
            ctx.event('nuts_moments_without_adaptation')
        na = kw['n_adapt'] if kw['n_adapt'] is not None else kw['n'] // 2
        ctx.event('nuts_iter_eq_adapt_plus_1', kw['n'] == na + 1)
        if isinstance(chain, np.ndarray) and chain.ndim == 2 and len(chain):
            full = np.vstack([np.array(kw['x0'], dtype=float)[None], chain])
            moved = np.any(full[1:] != full[:-1], axis=1)
            nonfinite = any(not math.isfinite(v) for _, v in tlog)
            ctx.event('nuts_iterations_moved', int(moved.sum()))
            ctx.event('nuts_iterations_stayed', int((~moved).sum()))
            ctx.nontrivial(bool(moved.any()) and (bool((~moved).any()) or nonfinite))

    check_common(ctx, kind, tgt, kw, chain, kname)
    ctx.event('start_dtype_' + kw.get('x0_dtype', 'float64'))
    if case['kind'] in ('metmom', 'nutsmom'):
        check_moments(ctx, kind, tgt, kw, chain, kname)
