"""C05 - Output pools are transparent: reuse never changes results or re-simulates.

Differential monitor (pool run vs. pool-free twin with the same seed), call counters inside
the user operations, pool-content monitor (exactly the consumed batches, byte-equal to a
fresh computation), context-refusal check.  Histories of runs over one pool.
"""
import os
import pickle
import shutil
import tempfile

import numpy as np

from vmon import models
from vmon.clients import ScheduledClient
from vmon.core import Violation

PROPERTY = 'C05'
LEVEL = 'exploration'
TECHNIQUE = ('runtime monitoring: differential against a pool-free twin run, per-operation call counters (per run and per batch), pool-content '
             'monitor against fresh BatchHandler.compute, over generated run/edit histories on OutputPool and ArrayPool')
LEVEL_TEXT = ('Held on every generated history of runs over one pool: each step of the real Rejection sampler with the pool is compared byte-wise '
              'with the same seeded run without a pool; operations of stored nodes must not be invoked for batches the pool holds (counters inside '
              'the operations); after each step every store holds exactly the consumed batches with freshly computed values; foreign batch_size/seed '
              'are refused. Histories are sampled. One recorded mechanism is a known finding (see known_findings.json).')
LEVEL_NOTE = ('trusts: the twin model built from the same spec+edits; counters are exact only under the lazy native client with '
              'max_parallel_batches=1 (used for counter checks); stale stores are dropped by the history as a user must')
RULE = ('cases = inference-model spec x stored set (non-empty subset of simulator+descendants, optionally plus all parameters) x OutputPool | '
        'ArrayPool x batch size x seed x history of 2-6 steps (rerun same, rerun needing more batches, remove a store, add a store, replace a summary, replace '
        'the distance, close+open / pickle the pool, flush-without-save then reopen the earlier save) each a Rejection run, on a fresh or on the same sampler object (n_sim | quantile | threshold); distinct = hash of the case; non-trivial = '
        'some step ran while the pool already held >= 1 batch of >= 1 requested stored node')
ASSUMPTIONS = ['n_sim >= n_samples; parameter stores are all-or-none; stores of edited nodes and their descendants are dropped before the next run']
CONFIG = {
    'quick': {'shards': 16, 'cases': 30, 'timeout': 900, 'floor': 150},
    'thorough': {'shards': 32, 'cases': 1080, 'timeout': 5400, 'floor': 10800},
}
REQUIRED = ['addstore_steps', 'steps_reusing_sampler_object', 'crash_reopen_steps', 'steps', 'reuse_steps', 'results_compared', 'call_counters_checked', 'pool_batches_compared', 'context_refusals_checked',
            'pool_memory', 'pool_disk', 'edit_steps', 'scheduled_steps', 'steps_loading_from_pool', 'column_major_simulator_cases', 'smc_pool_reruns_multi_round', 'context_refusals_on_unused_pool_checked']

KNOWN_KEY = 'stochastic-node-rerun-after-pool-loaded-prior'


def gen_cases(ctx):
    rng = ctx.rng
    made = 0
    while made < ctx.ncases:
        spec = models.gen_spec(rng, flavours=('cont', 'quant'))
        summ = [s['name'] for s in spec['summaries']]
        desc = ['S'] + summ + ['d']
        stored = [str(x) for x in rng.choice(desc, size=int(rng.integers(1, len(desc) + 1)), replace=False)]
        if rng.random() < 0.4:
            stored += models.param_names(spec)
        bs = int(rng.choice([2, 5, 10]))
        seed = int(rng.integers(0, 2 ** 31 - 1))
        m = models.build(spec, name='pilot')
        d = m.generate(300, outputs=['d'], seed=seed % 1000 + 5)['d']
        fin = np.sort(d[np.isfinite(d)])
        if len(fin) < 100:
            continue
        steps = []
        disk = bool(rng.random() < 0.35)
        reuse_sampler = bool(rng.random() < 0.5)
        if spec['sim']['width'] > 1 and seed % 5 < 2:
            spec['sim']['layout'] = 'F'        # the simulator returns column-major batches (same values)
        fixed_outputs = [str(x) for x in rng.choice(summ, size=int(rng.integers(0, len(summ) + 1)), replace=False)]
        # hostile motif on disk: save, run on, flush without saving again, reopen the earlier save, need more batches
        motif = ['fill', 'reopen', 'more', 'crash_reopen', 'more'] if (disk and rng.random() < 0.6) else None
        for si in range(int(rng.integers(2, 7)) if not motif else int(rng.integers(5, 8))):
            acts = ['same', 'more', 'more', 'rmstore', 'rmstore', 'addstore', 'addstore', 'edit_summary', 'edit_disc', 'reopen'] + (['crash_reopen'] * 2 if disk else [])
            act = str(rng.choice(acts)) if si else 'fill'
            if motif and si < len(motif):
                act = motif[si]
            n = int(rng.choice([3, 7]))
            form = str(rng.choice(['n_sim', 'n_sim', 'quantile', 'threshold']))
            if form == 'n_sim':
                obj = {'n_sim': int(max(n, rng.choice([bs * 2, bs * 3 + 1, bs * 6, bs * 9 + 2])))}
            elif form == 'quantile':
                obj = {'quantile': float(rng.choice([0.2, 0.5]))}
            else:
                obj = {'threshold': float(fin[int(len(fin) * float(rng.choice([0.3, 0.6])))])}
            if motif and si < len(motif):
                obj = {'n_sim': int(max(n, [bs * 3 + 1, bs * 3 + 1, bs * 6, bs * 6, bs * 9 + 2][si]))}
            step = {'act': act, 'n': n, 'obj': obj,
                    'outputs': fixed_outputs if reuse_sampler else [str(x) for x in rng.choice(summ, size=int(rng.integers(0, len(summ) + 1)), replace=False)],
                    'client': 'scheduled' if rng.random() < 0.25 else 'native'}
            if step['client'] == 'scheduled':
                step['schedule'] = {'seed': int(rng.integers(0, 10 ** 6)), 'regime': str(rng.choice(['eager', 'newest', 'random', 'bursty'])),
                                    'mpb': int(rng.integers(2, 5))}
            if act == 'edit_summary':
                step['which'] = str(rng.choice(summ))
                step['scale'] = float(rng.choice([0.5, 2.0, 3.0]))
            if act == 'edit_disc':
                step['variant'] = int(rng.integers(1, 4))
            if act in ('rmstore', 'addstore'):
                step['pick'] = float(rng.random())
            steps.append(step)
        made += 1
        if made % 6 == 0:
            # the same seeded multi-round SMC estimation over one pool: filled, then repeated (identical run, the only kind of reuse
            # whose batches mean the same thing again: SMC overrides the parameters of every batch). The simulator is always among
            # the stored nodes, so that the open finding about re-simulating after pool-loaded priors is not involved.
            st2 = sorted(set(stored) | {'S'})
            yield {'kind': 'smc', 'spec': spec, 'stored': st2, 'bs': bs, 'seed': seed, 'disk': disk, 'n': int(rng.choice([6, 12])),
                   'thresholds': [float(fin[int(len(fin) * 0.6)]), float(fin[int(len(fin) * 0.35)])][:int(rng.integers(1, 3)) + 0] + (
                       [float(fin[int(len(fin) * 0.2)])] if rng.random() < 0.4 else []),
                   'mpb': int(rng.integers(1, 4))}
            continue
        yield {'spec': spec, 'stored': stored, 'bs': bs, 'seed': seed, 'disk': disk, 'steps': steps, 'reuse_sampler': reuse_sampler}


def _summary_fn(spec, name, scale):
    import functools
    kind = [s['kind'] for s in spec['summaries'] if s['name'] == name][0]
    kw = {'node': name}
    if scale != 1.0:
        if kind == 'mean':
            kw['offset'] = scale
        else:
            kw['scale'] = scale
    return functools.partial(models.SUMMARIES[kind], **kw)


def _disc_fn(spec, variant):
    import functools
    d = spec['disc']
    return functools.partial(models.disc_op, flavour=d['flavour'], cut=d['cut'], levels=d['levels'], node='d', variant=variant)


def _build(spec, version):
    """Fresh model of (spec, version) - the twin."""
    import elfi
    m = models.build(spec, sim_meta=True)
    for name, scale in version['summ'].items():
        m[name].become(elfi.Summary(_summary_fn(spec, name, scale), m['S'], model=m))
    if version['disc']:
        m['d'].become(elfi.Discrepancy(_disc_fn(spec, version['disc']), *[m[s['name']] for s in spec['summaries']], model=m))
    return m


def _run(m, case, step, pool, client=None, keep=None):
    """keep: dict holding a sampler object to be reused across steps (same model, native client), or None."""
    import elfi
    import elfi.client
    import elfi.clients.native as nat
    models.reset_log()
    mpb = step['schedule']['mpb'] if (client is not None) else 1
    if keep is not None and keep.get('rej') is not None and client is None:
        rej, hist = keep['rej'], keep['hist']
        del hist[:]
        keep['reused'] = True
    else:
        elfi.client.set_client(client or nat.Client())
        rej = elfi.Rejection(m['d'], batch_size=case['bs'], seed=case['seed'], pool=pool, output_names=list(step['outputs']),
                             max_parallel_batches=mpb)
        hist = []
        upd = rej.update

        def recording_update(batch, batch_index):
            hist.append(batch_index)
            return upd(batch, batch_index)
        rej.update = recording_update
        if keep is not None:
            keep['reused'] = False
            if client is None:
                keep['rej'], keep['hist'] = rej, hist
    r = rej.sample(step['n'], bar=False, **step['obj'])
    return r, dict(models.CALLS), list(hist)


def _drop(pool, x):
    """Remove a store the way a user must: the store object and, on disk, its file."""
    st = pool.remove_store(x)
    if st is not None and hasattr(st, 'delete'):
        st.delete()


def _same(a, b):
    if set(a.outputs) != set(b.outputs):
        return 'output names %s vs %s' % (sorted(a.outputs), sorted(b.outputs))
    for k in a.outputs:
        x, y = np.asarray(a.outputs[k]), np.asarray(b.outputs[k])
        if x.shape != y.shape or x.tobytes() != y.tobytes():
            return 'output %s differs' % k
    if a.threshold != b.threshold or a.n_sim != b.n_sim or a.n_batches != b.n_batches:
        return 'threshold/n_sim/n_batches %s vs %s' % ((a.threshold, a.n_sim, a.n_batches), (b.threshold, b.n_sim, b.n_batches))
    return None


def _smc_same(a, b):
    if a.n_sim != b.n_sim or len(a.populations) != len(b.populations):
        return 'n_sim/populations %s vs %s' % ((a.n_sim, len(a.populations)), (b.n_sim, len(b.populations)))
    for i, (pa, pb) in enumerate(zip(a.populations, b.populations)):
        for k in set(pa.outputs) | set(pb.outputs):
            x, y = np.asarray(pa.outputs.get(k)), np.asarray(pb.outputs.get(k))
            if x.shape != y.shape or x.tobytes() != y.tobytes():
                return 'population %d output %s differs' % (i, k)
        if np.asarray(pa.weights).tobytes() != np.asarray(pb.weights).tobytes() or pa.threshold != pb.threshold or pa.n_sim != pb.n_sim:
            return 'population %d weights/threshold/n_sim differ' % i
    return None


def run_smc(ctx, case):
    import elfi
    import elfi.client
    import elfi.clients.native as nat
    elfi.client.set_client(nat.Client())
    spec = case['spec']
    tmp = tempfile.mkdtemp(prefix='c05-')
    try:
        def smc(pool):
            m = models.build(spec, sim_meta=True)
            models.reset_log()
            kw = {'pool': pool} if pool is not None else {}
            sm = elfi.SMC(m['d'], batch_size=case['bs'], seed=case['seed'], max_parallel_batches=case['mpb'], **kw)
            hist = []
            upd = sm.update

            def recording_update(batch, batch_index):
                hist.append(batch_index)
                return upd(batch, batch_index)
            sm.update = recording_update
            r = sm.sample(case['n'], thresholds=list(case['thresholds']), bar=False)
            return r, dict(models.CALLS), hist
        ref, _, hist0 = smc(None)
        pool = elfi.ArrayPool(list(case['stored']), name='p', prefix=tmp) if case['disk'] else elfi.OutputPool(list(case['stored']))
        fill, _, hist1 = smc(pool)
        ctx.event('smc_pool_runs')
        why = _smc_same(fill, ref)
        if why:
            raise Violation('smc-result-differs', 'SMC while FILLING a pool storing %s differs from the pool-free run: %s' % (case['stored'], why))
        if case['disk'] and case['seed'] % 2:
            pool.close()
            pool = elfi.ArrayPool.open('p', prefix=tmp)
        re, calls, hist2 = smc(pool)
        ctx.event('smc_pool_reruns')
        if len(ref.populations) >= 2:
            ctx.event('smc_pool_reruns_multi_round')
        why = _smc_same(re, ref)
        if why:
            raise Violation('smc-result-differs', 'the same seeded SMC run REUSING a pool storing %s differs from the pool-free run: %s' % (case['stored'], why))
        held = set(hist1)
        n_sim_calls = sum(v for (node, key), v in calls.items() if node == 'S' and key is None)
        expect = sum(1 for b in hist2 if b not in held)
        if n_sim_calls != expect:
            raise Violation('call-count', 'SMC rerun: the stored simulator ran %d times, %d consumed batches were not held by the pool' % (n_sim_calls, expect),
                            {'consumed': hist2, 'held': sorted(held)})
        ctx.event('call_counters_checked')
        for x in case['stored']:
            have = [i for i in range(max(hist1 + hist2) + 1) if pool.has_store(x) and i in pool.get_store(x)]
            if sorted(set(hist1) | set(hist2)) != have:
                raise Violation('pool-batches', 'SMC: store %s holds batches %s, consumed so far %s' % (x, have[:40], sorted(set(hist1) | set(hist2))[:40]))
        ctx.event('pool_batches_compared')
        ctx.nontrivial(len(ref.populations) >= 2)
    finally:
        try:
            if case['disk']:
                pool.delete()
        except Exception:
            pass
        shutil.rmtree(tmp, ignore_errors=True)


def run_case(ctx, case):
    if case.get('kind') == 'smc':
        return run_smc(ctx, case)
    import elfi
    import elfi.client
    import elfi.clients.native as nat
    from elfi.model.elfi_model import ComputationContext
    spec = case['spec']
    params = models.param_names(spec)
    summ = [s['name'] for s in spec['summaries']]
    tmp = tempfile.mkdtemp(prefix='c05-')
    ctx.event('pool_disk' if case['disk'] else 'pool_memory')
    ctx.event('column_major_simulator_cases', bool(case['spec']['sim'].get('layout')))
    pool = elfi.ArrayPool(list(case['stored']), name='p', prefix=tmp) if case['disk'] else elfi.OutputPool(list(case['stored']))
    version = {'summ': {}, 'disc': 0}
    m = _build(spec, version)            # the live model, edited in place with become()
    held = {s: set() for s in case['stored']}
    saved_held = None          # what the pool held when it was last saved (close/save)
    keep = {} if case.get('reuse_sampler') else None
    nontrivial = False
    try:
        for si, step in enumerate(case['steps']):
            act = step['act']
            where = 'step %d (%s)' % (si, act)
            stale = []
            if act == 'rmstore' and len(pool.stores) > 1:
                groups = [[x] for x in pool.stores if x not in params] + ([list(params)] if all(p in pool.stores for p in params) else [])
                if len(groups) > 1:
                    g = groups[int(step['pick'] * len(groups)) % len(groups)]
                    # keep the stored set of the stated form: at least one of simulator/descendants stays
                    if any(x not in params and x not in g for x in pool.stores):
                        for x in g:
                            _drop(pool, x)
                            held.pop(x, None)
            if act == 'addstore':
                # start storing one more node of the stated form on a pool that already holds batches of the others
                cand = [x for x in ['S'] + summ + ['d'] if x not in pool.stores]
                if cand:
                    x = cand[int(step['pick'] * len(cand)) % len(cand)]
                    pool.add_store(x)
                    held[x] = set()
                    ctx.event('addstore_steps')
            if act == 'edit_summary':
                version['summ'][step['which']] = step['scale']
                m[step['which']].become(elfi.Summary(_summary_fn(spec, step['which'], step['scale']), m['S'], model=m))
                stale = [step['which'], 'd']
                ctx.event('edit_steps')
            if act == 'edit_disc':
                version['disc'] = step['variant']
                m['d'].become(elfi.Discrepancy(_disc_fn(spec, step['variant']), *[m[s] for s in summ], model=m))
                stale = ['d']
                ctx.event('edit_steps')
            for x in stale:
                if x in pool.stores:
                    if len([y for y in pool.stores if y not in params]) > 1:
                        _drop(pool, x)
                        held.pop(x, None)
                    else:
                        # the only non-parameter store became stale: start it afresh
                        _drop(pool, x)
                        pool.add_store(x)
                        held[x] = set()
            if act in ('edit_summary', 'edit_disc') and keep is not None:
                keep.clear()       # a sampler works on a copy of the model taken when it was created
            if act == 'reopen' and pool.has_context:
                if case['disk']:
                    pool.close()
                    saved_held = {k: set(v) for k, v in held.items()}
                    pool = elfi.ArrayPool.open('p', prefix=tmp)
                else:
                    pool = pickle.loads(pickle.dumps(pool))
                if keep is not None:
                    keep.clear()   # the old sampler holds the old pool object
            if act == 'crash_reopen' and case['disk'] and pool.has_context and saved_held is not None \
                    and set(saved_held) == set(pool.stores) and all(saved_held[k] <= held[k] for k in saved_held):
                # the process flushed its data but went away without saving the pool again: reopen what was saved earlier
                pool.flush()
                for st_ in pool.stores.values():
                    if st_ is not None:
                        st_.close()
                pool = elfi.ArrayPool.open('p', prefix=tmp)
                held = {k: set(v) for k, v in saved_held.items()}
                ctx.event('crash_reopen_steps')
                if keep is not None:
                    keep.clear()
            stores_now = list(pool.stores)

            ref, _c, ref_hist = _run(_build(spec, version), case, step, None)
            client = None
            if step['client'] == 'scheduled':
                sc = step['schedule']
                client = ScheduledClient(sc['seed'], 2, sc['regime'], sc['mpb'], prop='C05')
                ctx.event('scheduled_steps')
            try:
                got, calls, hist = _run(m, case, step, pool, client, keep)
                if keep is not None and keep.get('reused'):
                    ctx.event('steps_reusing_sampler_object')
            finally:
                elfi.client.set_client(nat.Client())
            ctx.event('steps')
            B = len(hist)
            if any(held.get(x) for x in stores_now):
                ctx.event('reuse_steps')
                nontrivial = True
            problems = []
            diff = _same(ref, got)
            ctx.event('results_compared')
            if diff:
                problems.append(('result-differs-from-pool-free-run', diff))
            # call counters (exact only for the lazy sequential client)
            loaded_any = False
            if client is None:
                for x in stores_now:
                    h = held.get(x, set())
                    loaded_any |= any(i in h for i in range(B))
                    if x == 'S':
                        for i in range(B):
                            c = calls.get(('S', i), 0)
                            ctx.event('call_counters_checked')
                            if i in h and c:
                                problems.append(('stored-operation-reinvoked', 'simulator invoked %d time(s) for batch %d which the pool holds' % (c, i)))
                            if i not in h and c != 1:
                                problems.append(('call-count', 'simulator invoked %d times for batch %d (not held by the pool)' % (c, i)))
                    elif x in summ:
                        expected = len([i for i in range(B) if i not in h])
                        c = calls.get((x, None), 0)
                        ctx.event('call_counters_checked')
                        if c != expected:
                            problems.append(('stored-operation-reinvoked' if c > expected else 'call-count',
                                             'summary %s invoked %d times on simulated data, expected %d (consumed batches the pool did not hold)' % (x, c, expected)))
                # a batch for which the pool holds every requested output and every store needs no computation at all
                wanted = set(['d'] + list(params) + list(step['outputs'])) | set(stores_now)
                if wanted <= set(stores_now):
                    for i in range(B):
                        if all(i in held.get(x, set()) for x in wanted):
                            ctx.event('fully_held_batches_checked')
                            if calls.get(('S', i), 0):
                                problems.append(('needless-simulation-for-fully-held-batch',
                                                 'simulator invoked for batch %d although the pool holds every requested output of it' % i))
                if loaded_any:
                    ctx.event('steps_loading_from_pool')
            else:
                if any(i in held.get(x, set()) for x in stores_now for i in range(B)):
                    ctx.event('steps_loading_from_pool')
            # structural classifier of the known finding: the simulator executed in a batch in which the parameters were pool-loaded
            known = False
            if all(p in pool.stores for p in params):
                for i in range(max(B, max([k[1] for k in calls if k[0] == 'S' and isinstance(k[1], int)] + [0]) + 1)):
                    if all(i in held.get(p, set()) for p in params) and calls.get(('S', i), 0) > 0:
                        known = True
            if problems:
                key, msg = problems[0]
                wit = {'step': si, 'act': act, 'stores': stores_now, 'held': {k: sorted(v)[:12] for k, v in held.items()}, 'consumed': B,
                       'problems': [list(p) for p in problems[:4]], 'objective': step['obj'], 'client': step['client']}
                if known:
                    raise Violation(KNOWN_KEY, '%s: %s: %s' % (where, key, msg), wit)
                raise Violation(key, '%s: %s' % (where, msg), wit)
            if known:
                ctx.event('known_structure_without_mismatch')
            # pool content: exactly the consumed batches so far, values of a fresh computation
            for x in stores_now:
                held.setdefault(x, set()).update(range(B))
            fresh_model = _build(spec, version)
            fresh = elfi.client.BatchHandler(fresh_model, ComputationContext(batch_size=case['bs'], seed=case['seed']), output_names=stores_now)
            for x in stores_now:
                store = pool.stores[x]
                nb = 0 if store is None else len(store)
                if nb != len(held[x]) or held[x] != set(range(nb)):
                    raise Violation('pool-batches', '%s: store %s holds %d batches, consumed so far %s' % (where, x, nb, sorted(held[x])[-3:]),
                                    {'stores': stores_now, 'client': step['client']})
            for i in sorted({0, B - 1, (si * 7 + 3) % max(B, 1)}):
                fb = fresh.compute(i)
                pb = pool.get_batch(i)
                for x in stores_now:
                    ctx.event('pool_batches_compared')
                    a, b = np.asarray(pb[x]), np.asarray(fb[x])
                    if a.shape != b.shape or a.tobytes() != b.tobytes():
                        # under the known mechanism the simulator ran at another generator position in this step: what it produced
                        # (and everything computed from it) is stored, so the same structural classifier applies to the pool content
                        raise Violation(KNOWN_KEY if known else 'pool-content',
                                        '%s: pool batch %d of node %s differs from a fresh computation' % (where, i, x), {'pool': a, 'fresh': b})
            if known:
                # the pool now holds values from the divergent run; later steps of this history would only repeat the finding
                break
        # context refusal
        if pool.has_context:
            for kw in ({'batch_size': case['bs'] + 1, 'seed': case['seed']}, {'batch_size': case['bs'], 'seed': case['seed'] + 1}):
                ctx.event('context_refusals_checked')
                try:
                    ComputationContext(pool=pool, **kw)
                except Exception:      # any refusal counts, the statement does not prescribe the type
                    continue
                raise Violation('foreign-context-accepted', 'pool accepted %s although created with batch_size=%d seed=%d' % (kw, case['bs'], case['seed']))
        # the same on a pool that has been handed to an inference object but has not received a batch yet (two samplers set up
        # over one new pool before either runs): the pool belongs to the first one's batch_size and seed from that moment
        for fresh in ([elfi.OutputPool(list(case['stored']))] + ([elfi.ArrayPool(list(case['stored']), name='q', prefix=tmp)] if case['disk'] else [])):
            m2 = _build(spec, {'summ': {}, 'disc': 0})
            elfi.Rejection(m2['d'], batch_size=case['bs'], seed=case['seed'], pool=fresh)
            for kw in ({'batch_size': case['bs'] + 1, 'seed': case['seed']}, {'batch_size': case['bs'], 'seed': case['seed'] + 1}):
                ctx.event('context_refusals_on_unused_pool_checked')
                try:
                    elfi.Rejection(m2['d'], pool=fresh, **kw)
                except Exception:      # any refusal counts, the statement does not prescribe the type
                    continue
                raise Violation('foreign-context-accepted', 'a pool already given to a sampler with batch_size=%d seed=%d (no batch stored yet) accepted a '
                                'second sampler with %s' % (case['bs'], case['seed'], kw))
            if hasattr(fresh, 'delete'):
                try:
                    fresh.delete()
                except Exception:
                    pass
        ctx.nontrivial(nontrivial)
    finally:
        try:
            if case['disk']:
                pool.delete()
        except Exception:
            pass
        shutil.rmtree(tmp, ignore_errors=True)


def classify(v):
    return v['key']
