"""C01 - Rejection ABC returns exactly the best simulated draws, row-consistent.

History monitor on Rejection.update (independent record of every consumed batch) + offline
oracle over (history, returned Sample).  See DESIGN.md section 5 / C01.
"""
import math

import numpy as np

from vmon import models
from vmon.core import Violation

PROPERTY = 'C01'
LEVEL = 'exploration'
TECHNIQUE = 'runtime monitoring: history monitor on Rejection.update + offline best-n/row-identity oracle over generated models and configurations'
LEVEL_TEXT = ('Held on every generated execution: each run of the real Rejection sampler is recorded at update() and the returned '
              'Sample is decided by an independent best-n / row-identity / budget oracle. Exploration (random models x configurations), '
              'not exhaustive; the right level because the property quantifies over models and configurations, which only sampling can reach.')
LEVEL_NOTE = 'trusts: numpy sort/compare, the harness model family (vmon/models.py), compat layer (DESIGN.md section 3); native client only (schedules are C04)'
RULE = ('cases = random inference-model spec (1-3 priors incl. hierarchical, scalar/vector summaries, '
        'continuous/quantised/partly-infinite discrepancies) x batch_size x n_samples x objective form '
        '(threshold from a pilot quantile or a quantised level | quantile | n_sim) x extra outputs x '
        'max_parallel_batches x optional second sample() on the same sampler; distinct = hash of the case; '
        'non-trivial = at least 2 batches consumed and at least one consumed row not returned')
ASSUMPTIONS = ['consumed draws = batches delivered to Rejection.update (deep-copied at delivery)',
               'NaN discrepancies are not generated (the statement orders by discrepancy)']
CONFIG = {
    'quick': {'shards': 16, 'cases': 132, 'timeout': 600, 'floor': 360},
    'thorough': {'shards': 32, 'cases': 4000, 'timeout': 5400, 'floor': 20000},
}
REQUIRED = ['disc_dtype_i', 'disc_dtype_b', 'earlier_result_rechecked', 'runs_with_progress_bar', 'updates_observed', 'rows_matched', 'mode_threshold', 'mode_quantile', 'mode_n_sim',
            'ties_in_result', 'inf_consumed']

BATCH_SIZES = [1, 2, 3, 5, 8, 16, 50]
N_SAMPLES = [1, 2, 3, 5, 8, 16, 20]


def _objective(rng, spec, bs, n, seed):
    import elfi
    mode = str(rng.choice(['threshold', 'quantile', 'n_sim']))
    if mode == 'n_sim':
        return mode, {'n_sim': int(max(n, rng.integers(n, 6 * n + 11)))}
    if mode == 'quantile':
        return mode, {'quantile': float(rng.choice([0.1, 0.25, 0.5, 0.9, 1.0]))}
    # threshold from a pilot so that acceptance ranges from rare to certain
    m = models.build(spec, name='pilot')
    d = np.asarray(m.generate(300, outputs=['d'], seed=int(seed) + 17)['d'], dtype=float)
    fin = np.sort(d[np.isfinite(d)])
    if len(fin) < 15:
        return 'n_sim', {'n_sim': int(max(n, rng.integers(n, 6 * n + 11)))}
    q = float(rng.choice([0.05, 0.2, 0.5, 0.9, 1.0]))
    t = float(fin[min(len(fin) - 1, int(q * len(fin)))])
    if rng.random() < 0.3:
        t = float(t + 0.25)
    return mode, {'threshold': t}


def gen_cases(ctx):
    rng = ctx.rng
    for _ in range(ctx.ncases):
        spec = models.gen_spec(rng, flavours=('cont', 'quant', 'inf', 'quantinf', 'int', 'bool') if rng.random() < 0.5 else ('cont', 'quant', 'inf', 'quantinf'))
        bs = int(rng.choice(BATCH_SIZES))
        n = int(rng.choice(N_SAMPLES))
        seed = int(rng.integers(0, 2 ** 31 - 1))
        mode, kw = _objective(rng, spec, bs, n, seed)
        cand = ['S'] + [s['name'] for s in spec['summaries']]
        k = int(rng.integers(0, len(cand) + 1))
        outn = [str(x) for x in rng.choice(cand, size=k, replace=False)]
        case = {'spec': spec, 'bs': bs, 'n': n, 'mode': mode, 'kw': kw, 'outputs': outn, 'seed': seed,
                'mpb': int(rng.integers(1, 5)), 'bar': bool(rng.random() < 0.3)}
        if rng.random() < 0.3:
            n2 = int(rng.choice(N_SAMPLES))
            mode2, kw2 = _objective(rng, spec, bs, n2, seed + 1)
            case['again'] = {'n': n2, 'mode': mode2, 'kw': kw2}
        yield case


def check_result(ctx, case, n, mode, kw, hist, res, names):
    bs = case['bs']
    B = len(hist)
    ctx.event('updates_observed', B)
    ctx.event('mode_' + mode)
    miss = [k for k in names if k not in res.outputs]
    if miss:
        raise Violation('missing-output', 'requested outputs absent from Sample.outputs: %s' % miss)
    idx = [h[0] for h in hist]
    if idx != list(range(B)):
        raise Violation('consumed-indices', 'consumed batch indices are not 0..B-1 each once: %s' % idx[:30])
    if res.n_sim != bs * B or res.n_batches != B:
        raise Violation('n_sim', 'n_sim=%s n_batches=%s but %d batches of size %d were consumed' % (res.n_sim, res.n_batches, B, bs))
    if mode == 'n_sim' and B != math.ceil(kw['n_sim'] / bs):
        raise Violation('budget-batches', 'n_sim=%d batch_size=%d consumed %d batches, expected %d' % (kw['n_sim'], bs, B, math.ceil(kw['n_sim'] / bs)))
    if mode == 'quantile' and B != math.ceil(math.ceil(n / kw['quantile']) / bs):
        raise Violation('budget-batches', 'quantile=%s n=%d batch_size=%d consumed %d batches, expected %d' % (
            kw['quantile'], n, bs, B, math.ceil(math.ceil(n / kw['quantile']) / bs)))
    allrows = {k: np.concatenate([h[1][k] for h in hist]) for k in names}
    D = np.asarray(allrows['d'], dtype=float)
    ctx.event('disc_dtype_' + np.asarray(allrows['d']).dtype.kind)
    if np.isinf(D).any():
        ctx.event('inf_consumed')
    elig = np.ones(len(D), bool) if mode != 'threshold' else D <= kw['threshold']
    rd = np.asarray(res.outputs['d'], dtype=float)
    for k in names:
        if len(res.outputs[k]) != n:
            raise Violation('length', 'output %s has %d rows, n_samples=%d' % (k, len(res.outputs[k]), n))
    if not np.all(rd[:-1] <= rd[1:]):
        raise Violation('order', 'returned discrepancies are not ascending', {'d': rd})
    exp = np.sort(D[elig])[:n]
    if not np.array_equal(exp, rd):
        raise Violation('not-the-best', 'returned discrepancies are not the n smallest eligible consumed ones',
                        {'expected_tail': exp[-5:], 'returned_tail': rd[-5:], 'n_eligible': int(elig.sum())})
    thr = res.threshold
    if not (thr == rd[-1]):
        raise Violation('threshold', 'reported threshold %r != largest returned discrepancy %r' % (thr, rd[-1]))

    def key(src, i):
        # the discrepancy is compared by value (an integer discrepancy may be returned in a float column), everything else byte-wise
        return tuple(np.asarray(src[k][i], dtype=float).tobytes() if k == 'd' else np.ascontiguousarray(src[k][i]).tobytes() for k in names)

    pool = {}
    for i in np.where(elig)[0]:
        pool.setdefault(key(allrows, i), []).append(i)
    used = set()
    for i in range(n):
        k = key(res.outputs, i)
        if not pool.get(k):
            raise Violation('row-not-simulated', 'returned row %d (d=%r) is not a (distinct) consumed simulated row: outputs of one row '
                            'come from different draws or from no draw' % (i, rd[i]),
                            {'row': {kk: res.outputs[kk][i] for kk in names}})
        used.add(pool[k].pop())
        ctx.event('rows_matched')
    mx = rd[-1]
    for i in np.where(elig & (D < mx))[0]:
        if i not in used:
            raise Violation('missing-better-row', 'consumed row %d with d=%r < max returned %r is missing' % (i, D[i], mx))
    if len(np.unique(rd)) < len(rd):
        ctx.event('ties_in_result')
    if (D[elig] == mx).sum() > (rd == mx).sum():
        ctx.event('ties_at_cut')
    if mode == 'threshold' and (~elig).any():
        ctx.event('rows_above_threshold', int((~elig).sum()))
    ctx.nontrivial(B >= 2 and int(elig.sum()) > n or (B >= 2 and len(D) > n))
    ctx.distinct('config_class', '%s|%s|bs%s|n%s' % (case['spec']['disc']['flavour'], mode, bs > n, B > 1))


def run_case(ctx, case):
    import elfi
    spec = case['spec']
    m = models.build(spec)
    names = ['d'] + models.param_names(spec) + list(case['outputs'])
    rej = elfi.Rejection(m['d'], batch_size=case['bs'], seed=case['seed'], output_names=list(case['outputs']),
                         max_parallel_batches=case['mpb'])
    hist = []
    upd = rej.update

    def recording_update(batch, batch_index):
        hist.append((batch_index, {k: np.array(v, copy=True) for k, v in batch.items()}))
        return upd(batch, batch_index)

    rej.update = recording_update
    ctx.event('runs_with_progress_bar', bool(case.get('bar')))
    res = rej.sample(case['n'], bar=bool(case.get('bar')), **case['kw'])
    check_result(ctx, case, case['n'], case['mode'], case['kw'], hist, res, names)
    if 'again' in case:
        a = case['again']
        first = {k: np.array(v, copy=True) for k, v in res.outputs.items()}
        first_meta = (res.threshold, res.n_sim, res.n_batches)
        del hist[:]
        res2 = rej.sample(a['n'], bar=bool(case.get('bar')), **a['kw'])
        ctx.event('second_sample_calls')
        check_result(ctx, case, a['n'], a['mode'], a['kw'], hist, res2, names)
        # the Sample returned by the first run must still be what it was
        ctx.event('earlier_result_rechecked')
        for k, v in first.items():
            now = np.asarray(res.outputs[k])
            if now.shape != v.shape or not np.array_equal(now, v, equal_nan=True):
                raise Violation('earlier-result-overwritten', 'output %s of the Sample returned by the first sample() call changed during the second call on the same sampler' % k)
        if (res.threshold, res.n_sim, res.n_batches) != first_meta and not (np.isnan(first_meta[0]) and np.isnan(res.threshold)):
            raise Violation('earlier-result-overwritten', 'threshold/n_sim/n_batches of the first Sample changed during the second call')
